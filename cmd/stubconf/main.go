// stubconf pins the contract of the dRPC/network stubs (verif/sim/simdrpc,
// verif/sim/simnet) to the behaviour of the real storj.io/drpc v0.0.33 over
// loopback TCP: the same micro-scenarios are executed against both and must
// produce the same observations. It is a self-test of the machinery (run by
// bin/setup), not a property check. Exit 0 = conform, 2 = mismatch/trouble.
package main

import (
	"context"
	"errors"
	"fmt"
	"io"
	"net"
	"os"
	"time"

	"storj.io/drpc"
	realconn "storj.io/drpc/drpcconn"
	realserver "storj.io/drpc/drpcserver"

	simconn "verif/sim/simdrpc/drpcconn"
	simserver "verif/sim/simdrpc/drpcserver"
	simnet "verif/sim/simnet"
	"verif/sim/simrt"
)

type rawEnc struct{}

func (rawEnc) Marshal(msg drpc.Message) ([]byte, error) { return append([]byte{}, *(msg.(*[]byte))...), nil }
func (rawEnc) Unmarshal(buf []byte, msg drpc.Message) error {
	*(msg.(*[]byte)) = append([]byte{}, buf...)
	return nil
}

// handler: reads messages; "bad" => return an error; records how MsgRecv ended.
type handler struct {
	recvEnd chan string
	got     chan string
}

func (h *handler) HandleRPC(stream drpc.Stream, rpc string) error {
	for {
		var b []byte
		if err := stream.MsgRecv(&b, rawEnc{}); err != nil {
			h.recvEnd <- classify(err)
			return nil
		}
		if string(b) == "bad" {
			return errors.New("handler rejects this message")
		}
		select {
		case h.got <- string(b):
		default:
		}
	}
}

func classify(err error) string {
	switch {
	case err == nil:
		return "nil"
	case errors.Is(err, io.EOF):
		return "EOF"
	case errors.Is(err, context.Canceled):
		return "Canceled"
	}
	return "other"
}

type conn interface {
	NewStream(ctx context.Context, rpc string, enc drpc.Encoding) (drpc.Stream, error)
	Closed() <-chan struct{}
	Close() error
}

type world interface {
	name() string
	listen() (net.Listener, string)
	serve(ctx context.Context, h drpc.Handler, l net.Listener, done chan error)
	dial(addr string) (conn, error)
	sleep(d time.Duration)
	recv(ch chan string, d time.Duration) string
	closed(ch <-chan struct{}, d time.Duration) bool
	waitErr(ch chan error, d time.Duration) string
	deadAddr() string
}

// ---------------------------------------------------------------- real

type realWorld struct{}

func (realWorld) name() string { return "real drpc over loopback" }
func (realWorld) listen() (net.Listener, string) {
	l, err := net.Listen("tcp", "127.0.0.1:0")
	if err != nil {
		fmt.Println("stubconf: cannot listen on loopback:", err)
		os.Exit(3)
	}
	return l, l.Addr().String()
}
func (realWorld) serve(ctx context.Context, h drpc.Handler, l net.Listener, done chan error) {
	go func() { done <- realserver.New(h).Serve(ctx, l) }()
}
func (realWorld) dial(addr string) (conn, error) {
	c, err := net.DialTimeout("tcp", addr, 2*time.Second)
	if err != nil {
		return nil, err
	}
	return realconn.New(c), nil
}
func (realWorld) sleep(d time.Duration) { time.Sleep(d) }
func (realWorld) recv(ch chan string, d time.Duration) string {
	select {
	case s := <-ch:
		return s
	case <-time.After(d):
		return "timeout"
	}
}
func (realWorld) closed(ch <-chan struct{}, d time.Duration) bool {
	select {
	case <-ch:
		return true
	case <-time.After(d):
		return false
	}
}
func (realWorld) waitErr(ch chan error, d time.Duration) string {
	select {
	case e := <-ch:
		return classify(e)
	case <-time.After(d):
		return "timeout"
	}
}
func (realWorld) deadAddr() string {
	l, err := net.Listen("tcp", "127.0.0.1:0")
	if err != nil {
		os.Exit(3)
	}
	a := l.Addr().String()
	l.Close()
	return a
}

// ---------------------------------------------------------------- simulated

type simWorld struct{ n int }

func (*simWorld) name() string { return "stub over simulated network" }
func (w *simWorld) listen() (net.Listener, string) {
	w.n++
	addr := fmt.Sprintf("10.5.0.%d:1", w.n)
	old := simrt.SetNode(2)
	l, err := simnet.Listen("tcp", addr)
	simrt.SetNode(old)
	if err != nil {
		panic(err)
	}
	return l, addr
}
func (*simWorld) serve(ctx context.Context, h drpc.Handler, l net.Listener, done chan error) {
	simrt.GoNode(2, "serve", func() { e := simserver.New(h).Serve(ctx, l); simrt.Send(done, e) })
}
func (*simWorld) dial(addr string) (conn, error) {
	c, err := simnet.Dial("tcp", addr)
	if err != nil {
		return nil, err
	}
	return simconn.New(c), nil
}
func (*simWorld) sleep(d time.Duration) { simrt.Sleep(d) }
func (*simWorld) recv(ch chan string, d time.Duration) string {
	deadline := simrt.Now() + int64(d)
	for {
		if s, ok := simrt.TryRecv(ch); ok {
			return s
		}
		if simrt.Now() >= deadline {
			return "timeout"
		}
		simrt.Sleep(time.Millisecond)
	}
}
func (*simWorld) closed(ch <-chan struct{}, d time.Duration) bool {
	deadline := simrt.Now() + int64(d)
	for {
		if _, ok := simrt.TryRecv(ch); ok {
			return true
		}
		if simrt.Now() >= deadline {
			return false
		}
		simrt.Sleep(time.Millisecond)
	}
}
func (*simWorld) waitErr(ch chan error, d time.Duration) string {
	deadline := simrt.Now() + int64(d)
	for {
		if e, ok := simrt.TryRecv(ch); ok {
			return classify(e)
		}
		if simrt.Now() >= deadline {
			return "timeout"
		}
		simrt.Sleep(time.Millisecond)
	}
}
func (*simWorld) deadAddr() string { return "10.5.0.250:1" }

// ---------------------------------------------------------------- scenarios

func scenarios(w world) []string {
	var obs []string
	add := func(k, v string) { obs = append(obs, k+"="+v) }
	send := func(s drpc.Stream, m string) error { b := []byte(m); return s.MsgSend(&b, rawEnc{}) }

	// A: after the remote handler fails, the client's MsgSend ends with io.EOF
	{
		h := &handler{recvEnd: make(chan string, 4), got: make(chan string, 16)}
		l, addr := w.listen()
		ctx, cancel := context.WithCancel(context.Background())
		done := make(chan error, 1)
		w.serve(ctx, h, l, done)
		c, err := w.dial(addr)
		add("A.dial", classify(err))
		if err == nil {
			s, err := c.NewStream(context.Background(), "/t/S", rawEnc{})
			add("A.newstream", classify(err))
			add("A.send-ok", classify(send(s, "ok")))
			add("A.server-got", w.recv(h.got, 2*time.Second))
			add("A.send-bad", classify(send(s, "bad")))
			res := "never-failed"
			for i := 0; i < 200; i++ {
				if err := send(s, "x"); err != nil {
					res = classify(err)
					break
				}
				w.sleep(5 * time.Millisecond)
			}
			add("A.send-after-handler-error", res)
			add("A.conn-still-open", fmt.Sprint(!w.closed(c.Closed(), 50*time.Millisecond)))
			// B: a second stream on the same connection still works after the failed one
			s2, err := c.NewStream(context.Background(), "/t/S", rawEnc{})
			add("B.second-stream", classify(err))
			if err == nil {
				add("B.send", classify(send(s2, "again")))
				add("B.server-got", w.recv(h.got, 2*time.Second))
				// C: CloseSend ends the handler's MsgRecv with io.EOF
				add("C.closesend", classify(s2.CloseSend()))
				add("C.server-recv-end", w.recv(h.recvEnd, 2*time.Second))
			}
			// D: cancelling Serve's context closes the connection under the client
			cancel()
			add("D.serve-returns", w.waitErr(done, 2*time.Second))
			add("D.client-closed", fmt.Sprint(w.closed(c.Closed(), 2*time.Second)))
			// E: nothing is accepted afterwards
			_, err = w.dial(addr)
			add("E.dial-after-stop-fails", fmt.Sprint(err != nil))
		}
		cancel()
	}
	// F: cancelling Serve's context while a handler is blocked in MsgRecv => context.Canceled
	{
		h := &handler{recvEnd: make(chan string, 4), got: make(chan string, 16)}
		l, addr := w.listen()
		ctx, cancel := context.WithCancel(context.Background())
		done := make(chan error, 1)
		w.serve(ctx, h, l, done)
		c, err := w.dial(addr)
		if err == nil {
			s, _ := c.NewStream(context.Background(), "/t/S", rawEnc{})
			send(s, "hello")
			add("F.server-got", w.recv(h.got, 2*time.Second))
			cancel()
			add("F.server-recv-end", w.recv(h.recvEnd, 2*time.Second))
			add("F.serve-returns", w.waitErr(done, 2*time.Second))
		}
		cancel()
	}
	// G: the client closes its connection: the handler's MsgRecv ends (not with nil)
	{
		h := &handler{recvEnd: make(chan string, 4), got: make(chan string, 16)}
		l, addr := w.listen()
		ctx, cancel := context.WithCancel(context.Background())
		done := make(chan error, 1)
		w.serve(ctx, h, l, done)
		c, err := w.dial(addr)
		if err == nil {
			s, _ := c.NewStream(context.Background(), "/t/S", rawEnc{})
			send(s, "hello")
			add("G.server-got", w.recv(h.got, 2*time.Second))
			c.Close()
			end := w.recv(h.recvEnd, 2*time.Second)
			add("G.server-recv-ends", fmt.Sprint(end != "timeout" && end != "nil"))
			add("G.client-closed", fmt.Sprint(w.closed(c.Closed(), time.Second)))
			add("G.send-after-close-fails", fmt.Sprint(send(s, "late") != nil))
		}
		cancel()
		w.waitErr(done, 2*time.Second)
	}
	// H: dialling an address nobody listens on fails
	{
		_, err := w.dial(w.deadAddr())
		add("H.dial-dead-fails", fmt.Sprint(err != nil))
	}
	return obs
}

func main() {
	real := scenarios(realWorld{})
	var sim []string
	res := simrt.Run(simrt.Config{Seed: 1, ReplaySched: true}, func() {
		sim = scenarios(&simWorld{})
	})
	if res.Crash != nil {
		fmt.Println("stubconf: simulated run crashed:", res.Crash.Value)
		fmt.Println(res.Crash.Stack)
		os.Exit(2)
	}
	ok := len(real) == len(sim)
	for i := 0; i < len(real) && i < len(sim); i++ {
		mark := "  "
		if real[i] != sim[i] {
			mark = "!!"
			ok = false
		}
		fmt.Printf("%s real: %-40s stub: %s\n", mark, real[i], sim[i])
	}
	if !ok {
		fmt.Println("stubconf: the stub's contract differs from real drpc")
		os.Exit(2)
	}
	fmt.Printf("stubconf ok: %d observations identical for real drpc v0.0.33 over loopback and the stub\n", len(real))
}
