// simcheck is the single binary behind every check: it is built by
// bin/simbuild against a rewritten scratch copy of /repo's working tree.
//
//	simcheck run    -prop C14 -tier quick -seed 1     parent: forks workers, aggregates, writes evidence
//	simcheck worker ...                               one search process
//	simcheck replay <file>                            re-execute a replay file in this fresh process
//	simcheck one    -prop C14 -profile p -seed S      one run with a trace (debugging)
//	simcheck hashes -prop C14 -n 200 -seed S          determinism self-test: one hash per run
//
// Exit codes: 0 held on everything explored, 1 new violation, 2 machinery trouble.
package main

import (
	"bufio"
	"encoding/json"
	"flag"
	"fmt"
	"io"
	"log/slog"
	"os"
	"os/exec"
	"path/filepath"
	"runtime"
	"runtime/debug"
	"sort"
	"strconv"
	"strings"
	"sync"
	"time"

	"verif/harness/core"
	_ "verif/harness/fam/cluster"
	_ "verif/harness/fam/engine"
	_ "verif/harness/fam/inbox"
	_ "verif/harness/fam/remote"
	_ "verif/harness/fam/ring"
	"verif/sim/simrt"
)

func main() {
	slog.SetDefault(slog.New(slog.NewTextHandler(io.Discard, &slog.HandlerOptions{Level: slog.Level(100)})))
	debug.SetGCPercent(400)
	if len(os.Args) < 2 {
		fmt.Fprintln(os.Stderr, "usage: simcheck run|worker|replay|one|hashes|list ...")
		os.Exit(2)
	}
	switch os.Args[1] {
	case "run":
		os.Exit(cmdRun(os.Args[2:]))
	case "worker":
		os.Exit(cmdWorker(os.Args[2:]))
	case "replay":
		os.Exit(cmdReplay(os.Args[2:]))
	case "one":
		os.Exit(cmdOne(os.Args[2:]))
	case "hashes":
		os.Exit(cmdHashes(os.Args[2:]))
	case "list":
		for _, p := range core.Properties() {
			for _, pr := range core.Profiles(p) {
				fmt.Printf("%s %s w=%d thoroughOnly=%v\n", p, pr.Name, pr.Weight, pr.ThoroughOnly)
			}
		}
		os.Exit(0)
	}
	fmt.Fprintln(os.Stderr, "unknown subcommand", os.Args[1])
	os.Exit(2)
}

func verifRoot() string {
	if r := os.Getenv("VERIF_ROOT"); r != "" {
		return r
	}
	return "/verif"
}

// ---------------------------------------------------------------- known findings

type knownFinding struct {
	Property string `json:"property"`
	Clause   string `json:"clause"`
	Status   string `json:"status"` // "known" | "fixed"
	Commit   string `json:"commit,omitempty"`
	What     string `json:"what"`
}

func loadKnown() []knownFinding {
	b, err := os.ReadFile(filepath.Join(verifRoot(), "known_findings.json"))
	if err != nil {
		return nil
	}
	var f struct {
		Findings []knownFinding `json:"findings"`
	}
	if err := json.Unmarshal(b, &f); err != nil {
		fmt.Fprintln(os.Stderr, "simcheck: known_findings.json does not parse:", err)
		os.Exit(2)
	}
	return f.Findings
}

func knownSigs(prop string) map[string]knownFinding {
	m := map[string]knownFinding{}
	for _, k := range loadKnown() {
		if k.Property == prop && k.Status == "known" {
			m[k.Property+":"+k.Clause] = k
		}
	}
	return m
}

// ---------------------------------------------------------------- worker

type workerStats struct {
	Type        string         `json:"type"`
	Runs        uint64         `json:"runs"`
	Steps       uint64         `json:"steps"`
	SimNanos    int64          `json:"sim_nanos"`
	Switches    uint64         `json:"switches"`
	Tasks       uint64         `json:"tasks"`
	Faults      map[string]int `json:"faults"`
	Probes      map[string]int `json:"probes"`
	Strategies  map[string]int `json:"strategies"`
	Profiles    map[string]int `json:"profiles"`
	Notes       map[string]int `json:"notes"`
	EndReasons  map[string]int `json:"end_reasons"`
	Blocked     int            `json:"blocked"`
	Inconcl     int            `json:"inconclusive"`
	Nontrivial  uint64         `json:"nontrivial"`
	KnownHits   map[string]int `json:"known_hits"`
	Samples     []sample       `json:"samples"`
	HashFile    string         `json:"hash_file"`
	WallS       float64        `json:"wall_s"`
	BlockedWhy  []string       `json:"blocked_why,omitempty"`
	InconclWhy  []string       `json:"inconclusive_why,omitempty"`
	KnownSample map[string]string `json:"known_sample,omitempty"`
}

type sample struct {
	Profile  string   `json:"profile"`
	Seed     uint64   `json:"seed"`
	Strategy string   `json:"strategy"`
	Steps    uint64   `json:"steps"`
	Scenario []string `json:"scenario"`
	Notes    map[string]int `json:"notes,omitempty"`
}

type violMsg struct {
	Type   string         `json:"type"`
	Sig    string         `json:"sig"`
	Viol   core.Violation `json:"violation"`
	Replay string         `json:"replay"`
	Seed   uint64         `json:"seed"`
	Repro  bool           `json:"reproduced"`
}

func startWatchdog(limit time.Duration) {
	go func() {
		last := simrt.Progress.Load()
		lastChange := time.Now()
		for {
			time.Sleep(2 * time.Second)
			cur := simrt.Progress.Load()
			if cur != last {
				last = cur
				lastChange = time.Now()
				continue
			}
			if time.Since(lastChange) > limit {
				buf := make([]byte, 1<<20)
				n := runtime.Stack(buf, true)
				fmt.Fprintf(os.Stderr, "simcheck: WATCHDOG: no scheduling step for %v; goroutines:\n%s\n", limit, buf[:n])
				os.Exit(2)
			}
		}
	}()
}

func cmdWorker(args []string) int {
	fs := flag.NewFlagSet("worker", flag.ExitOnError)
	prop := fs.String("prop", "", "")
	tier := fs.String("tier", "quick", "")
	seed := fs.Uint64("seed", 1, "")
	from := fs.Uint64("from", 0, "")
	stride := fs.Uint64("stride", 1, "")
	budget := fs.Duration("budget", 20*time.Second, "")
	maxRuns := fs.Uint64("runs", 0, "")
	shrink := fs.Duration("shrink", 20*time.Second, "")
	outDir := fs.String("out", "", "scratch dir for hash files")
	replayDir := fs.String("replays", envOr("VERIF_REPLAYS_DIR", filepath.Join(verifRoot(), "replays")), "")
	profile := fs.String("profile", "", "pin one profile")
	fs.Parse(args)
	startWatchdog(90 * time.Second)
	known := knownSigs(*prop)
	st := &workerStats{Type: "stats", Faults: map[string]int{}, Probes: map[string]int{}, Strategies: map[string]int{}, Profiles: map[string]int{},
		Notes: map[string]int{}, EndReasons: map[string]int{}, KnownHits: map[string]int{}, KnownSample: map[string]string{}}
	schedSet := map[uint64]struct{}{}
	histSet := map[uint64]struct{}{}
	seenSig := map[string]bool{}
	enc := json.NewEncoder(os.Stdout)
	t0 := time.Now()
	deadline := t0.Add(*budget)
	for idx := *from; ; idx += *stride {
		if *maxRuns > 0 && st.Runs >= *maxRuns {
			break
		}
		if st.Runs%16 == 0 && time.Now().After(deadline) {
			break
		}
		var p *core.Profile
		if *profile != "" {
			p = core.FindProfile(*prop, *profile)
		} else {
			p = core.PickProfile(*prop, *tier, idx)
		}
		if p == nil {
			fmt.Fprintf(os.Stderr, "simcheck: no profile for %s\n", *prop)
			return 2
		}
		s := core.MixSeed(*seed, idx)
		o := core.Exec(p, *tier, simrt.Config{Seed: s})
		if tr := o.HarnessTrouble(); tr != "" {
			fmt.Fprintf(os.Stderr, "simcheck: HARNESS TROUBLE prop=%s profile=%s seed=%d: %s\n", *prop, p.Name, s, tr)
			return 2
		}
		st.Runs++
		st.Steps += o.Sim.Steps
		st.SimNanos += o.Sim.SimNanos
		st.Switches += o.Sim.Switches
		st.Tasks += uint64(o.Sim.Tasks)
		for k, v := range o.Sim.Faults {
			st.Faults[k] += v
		}
		for k, v := range o.Sim.Probes {
			st.Probes[k] += v
		}
		for k, v := range o.Notes {
			st.Notes[k] += v
		}
		st.Strategies[o.Sim.Strategy]++
		st.Profiles[p.Name]++
		st.EndReasons[o.Sim.EndReason]++
		if len(o.Blocked) > 0 {
			st.Blocked++
			if len(st.BlockedWhy) < 5 {
				st.BlockedWhy = append(st.BlockedWhy, o.Blocked[0])
			}
		}
		if len(o.Inconcl) > 0 {
			st.Inconcl++
			if len(st.InconclWhy) < 5 {
				st.InconclWhy = append(st.InconclWhy, o.Inconcl[0])
			}
		}
		if len(schedSet) < 3_000_000 {
			schedSet[o.Sim.SchedHash] = struct{}{}
		}
		if o.Nontrivial {
			st.Nontrivial++
			if len(histSet) < 3_000_000 {
				histSet[o.Sim.HistHash^core.MixSeed(hashStrings(o.Scenario), 0)] = struct{}{}
			}
		}
		if len(st.Samples) < 2 && o.Nontrivial {
			st.Samples = append(st.Samples, sample{p.Name, s, o.Sim.Strategy, o.Sim.Steps, o.Scenario, o.Notes})
		}
		for _, v := range o.Violations {
			sig := v.Sig()
			if _, isKnown := known[sig]; isKnown {
				st.KnownHits[sig]++
				if st.KnownSample[sig] == "" {
					st.KnownSample[sig] = fmt.Sprintf("profile=%s seed=%d: %s", p.Name, s, v.Detail)
				}
				continue
			}
			if seenSig[sig] || len(seenSig) >= 3 {
				continue
			}
			seenSig[sig] = true
			// minimise, verify, write the replay file
			g, sc, last, info := core.Shrink(p, *tier, s, o.Sim.GenTape, o.Sim.SchedTape, sig, *shrink)
			rf := &core.ReplayFile{Property: *prop, Profile: p.Name, Tier: *tier, Seed: s, Violation: v, GenTape: g, SchedTape: sc, Shrink: info}
			repro := false
			if last != nil {
				// final traced replay
				tr := core.Exec(p, *tier, core.ReplayCfg(s, g, sc, true))
				for _, tv := range tr.Violations {
					if tv.Sig() == sig {
						repro = true
						rf.Violation = tv
					}
				}
				rf.Hash = fmt.Sprintf("%016x", tr.Sim.Hash)
				rf.Steps = tr.Sim.Steps
				rf.Scenario = tr.Scenario
				rf.Trace = tr.Sim.Trace
				if len(rf.Trace) > 4000 {
					rf.Trace = append(rf.Trace[:2000], append([]string{"... (trace truncated) ..."}, rf.Trace[len(rf.Trace)-2000:]...)...)
				}
				if tr.Sim.Crash != nil {
					rf.Crash = tr.Sim.Crash.Value + "\n" + tr.Sim.Crash.Stack
				}
			} else {
				rf.Note = "the violation did not reproduce when its own tapes were replayed: determinism trouble in the machinery"
			}
			os.MkdirAll(*replayDir, 0o755)
			path := filepath.Join(*replayDir, fmt.Sprintf("%s-%s-%d.json", *prop, sanitize(v.Clause), s))
			if err := rf.Write(path); err != nil {
				fmt.Fprintln(os.Stderr, "simcheck: cannot write replay:", err)
				return 2
			}
			enc.Encode(violMsg{"viol", sig, rf.Violation, path, s, repro})
		}
	}
	st.WallS = time.Since(t0).Seconds()
	if *outDir != "" {
		st.HashFile = filepath.Join(*outDir, fmt.Sprintf("hashes-%d.bin", *from))
		writeHashes(st.HashFile, schedSet, histSet)
	}
	enc.Encode(st)
	return 0
}

func hashStrings(ss []string) uint64 {
	h := uint64(14695981039346656037)
	for _, s := range ss {
		for i := 0; i < len(s); i++ {
			h ^= uint64(s[i])
			h *= 1099511628211
		}
	}
	return h
}

func sanitize(s string) string {
	var b strings.Builder
	for _, c := range s {
		if c >= 'a' && c <= 'z' || c >= 'A' && c <= 'Z' || c >= '0' && c <= '9' || c == '-' || c == '_' {
			b.WriteRune(c)
		} else {
			b.WriteByte('_')
		}
	}
	r := b.String()
	if len(r) > 60 {
		r = r[:60]
	}
	return r
}

func writeHashes(path string, a, b map[uint64]struct{}) {
	f, err := os.Create(path)
	if err != nil {
		return
	}
	defer f.Close()
	w := bufio.NewWriter(f)
	defer w.Flush()
	put := func(v uint64) {
		var buf [8]byte
		for i := 0; i < 8; i++ {
			buf[i] = byte(v >> (8 * i))
		}
		w.Write(buf[:])
	}
	put(uint64(len(a)))
	for k := range a {
		put(k)
	}
	put(uint64(len(b)))
	for k := range b {
		put(k)
	}
}

func readHashes(path string, a, b map[uint64]struct{}) {
	data, err := os.ReadFile(path)
	if err != nil {
		return
	}
	pos := 0
	get := func() uint64 {
		if pos+8 > len(data) {
			return 0
		}
		var v uint64
		for i := 0; i < 8; i++ {
			v |= uint64(data[pos+i]) << (8 * i)
		}
		pos += 8
		return v
	}
	n := get()
	for i := uint64(0); i < n; i++ {
		a[get()] = struct{}{}
	}
	n = get()
	for i := uint64(0); i < n; i++ {
		b[get()] = struct{}{}
	}
}

// ---------------------------------------------------------------- parent

func envInt(name string, def int) int {
	if v := os.Getenv(name); v != "" {
		if n, err := strconv.Atoi(v); err == nil {
			return n
		}
	}
	return def
}

func cmdRun(args []string) int {
	fs := flag.NewFlagSet("run", flag.ExitOnError)
	prop := fs.String("prop", "", "")
	tier := fs.String("tier", "quick", "")
	seed := fs.Uint64("seed", 1, "")
	workers := fs.Int("workers", envInt("VERIF_WORKERS", 16), "")
	budgetS := fs.Int("budget", 0, "search budget in seconds (0 = tier default)")
	runs := fs.Uint64("runs", 0, "runs per worker (0 = by budget)")
	profile := fs.String("profile", "", "")
	noEvidence := fs.Bool("no-evidence", false, "")
	fs.Parse(args)
	if len(core.Profiles(*prop)) == 0 {
		fmt.Fprintf(os.Stderr, "simcheck: no profiles registered for %q\n", *prop)
		return 2
	}
	if *budgetS == 0 {
		*budgetS = envInt("VERIF_BUDGET_S", map[string]int{"quick": 25, "thorough": 420}[*tier])
		if *budgetS == 0 {
			*budgetS = 25
		}
	}
	shrinkBudget := 20 * time.Second
	if *tier == "thorough" {
		shrinkBudget = 90 * time.Second
	}
	scratch, err := os.MkdirTemp(os.Getenv("VERIF_SCRATCH"), "verif-run.")
	if err != nil {
		scratch, err = os.MkdirTemp("", "verif-run.")
		if err != nil {
			fmt.Fprintln(os.Stderr, "simcheck:", err)
			return 2
		}
	}
	defer os.RemoveAll(scratch)
	self, _ := os.Executable()
	t0 := time.Now()
	type wres struct {
		stats *workerStats
		viols []violMsg
		err   error
		code  int
		stderr string
		timedOut bool
	}
	results := make([]wres, *workers)
	var wg sync.WaitGroup
	for i := 0; i < *workers; i++ {
		wg.Add(1)
		go func(i int) {
			defer wg.Done()
			a := []string{"worker", "-prop", *prop, "-tier", *tier, "-seed", fmt.Sprint(*seed), "-from", fmt.Sprint(i), "-stride", fmt.Sprint(*workers),
				"-budget", fmt.Sprintf("%ds", *budgetS), "-shrink", shrinkBudget.String(), "-out", scratch}
			if *runs > 0 {
				a = append(a, "-runs", fmt.Sprint(*runs))
			}
			if *profile != "" {
				a = append(a, "-profile", *profile)
			}
			cmd := exec.Command(self, a...)
			cmd.Env = append(os.Environ(), "GOMAXPROCS=2")
			var errb strings.Builder
			cmd.Stderr = &errb
			out, err := cmd.StdoutPipe()
			if err != nil {
				results[i].err = err
				return
			}
			if err := cmd.Start(); err != nil {
				results[i].err = err
				return
			}
			// a worker that is still busy long after its search and shrink budgets
			// (code under test that blows up in time or memory) is ended; what it
			// reported so far stays, the rest of it counts as trouble
			limit := time.Duration(*budgetS)*time.Second + 10*shrinkBudget + time.Minute
			killer := time.AfterFunc(limit, func() {
				results[i].timedOut = true
				cmd.Process.Kill()
			})
			defer killer.Stop()
			sc := bufio.NewScanner(out)
			sc.Buffer(make([]byte, 1<<20), 64<<20)
			for sc.Scan() {
				line := sc.Bytes()
				var probe struct {
					Type string `json:"type"`
				}
				if json.Unmarshal(line, &probe) != nil {
					continue
				}
				switch probe.Type {
				case "viol":
					var v violMsg
					json.Unmarshal(line, &v)
					results[i].viols = append(results[i].viols, v)
				case "stats":
					s := &workerStats{}
					json.Unmarshal(line, s)
					results[i].stats = s
				}
			}
			err = cmd.Wait()
			results[i].stderr = errb.String()
			if err != nil {
				results[i].err = err
				if ee, ok := err.(*exec.ExitError); ok {
					results[i].code = ee.ExitCode()
				} else {
					results[i].code = 2
				}
			}
		}(i)
	}
	wg.Wait()
	wall := time.Since(t0)

	// aggregate
	agg := &workerStats{Faults: map[string]int{}, Probes: map[string]int{}, Strategies: map[string]int{}, Profiles: map[string]int{},
		Notes: map[string]int{}, EndReasons: map[string]int{}, KnownHits: map[string]int{}, KnownSample: map[string]string{}}
	schedSet := map[uint64]struct{}{}
	histSet := map[uint64]struct{}{}
	trouble := false
	var viols []violMsg
	for i, r := range results {
		if r.err != nil || r.stats == nil {
			trouble = true
			if r.timedOut {
				fmt.Fprintf(os.Stderr, "simcheck: worker %d was still busy long after its budgets and was ended; violations it had reported (%d) are kept\n", i, len(r.viols))
			} else {
				fmt.Fprintf(os.Stderr, "simcheck: worker %d failed (%v):\n%s\n", i, r.err, tail(r.stderr, 6000))
			}
			// a violation that reproduced from its own tapes is evidence whatever
			// happened to the worker afterwards
			for _, v := range r.viols {
				if v.Repro {
					viols = append(viols, v)
				}
			}
			continue
		}
		s := r.stats
		agg.Runs += s.Runs
		agg.Steps += s.Steps
		agg.SimNanos += s.SimNanos
		agg.Switches += s.Switches
		agg.Tasks += s.Tasks
		agg.Blocked += s.Blocked
		agg.Inconcl += s.Inconcl
		agg.Nontrivial += s.Nontrivial
		addMap(agg.Faults, s.Faults)
		addMap(agg.Probes, s.Probes)
		addMap(agg.Strategies, s.Strategies)
		addMap(agg.Profiles, s.Profiles)
		addMap(agg.Notes, s.Notes)
		addMap(agg.EndReasons, s.EndReasons)
		addMap(agg.KnownHits, s.KnownHits)
		for k, v := range s.KnownSample {
			if agg.KnownSample[k] == "" {
				agg.KnownSample[k] = v
			}
		}
		if len(agg.Samples) < 4 {
			agg.Samples = append(agg.Samples, s.Samples...)
		}
		agg.BlockedWhy = append(agg.BlockedWhy, s.BlockedWhy...)
		agg.InconclWhy = append(agg.InconclWhy, s.InconclWhy...)
		readHashes(s.HashFile, schedSet, histSet)
		viols = append(viols, r.viols...)
	}
	known := knownSigs(*prop)
	if trouble {
		// without any new, reproduced violation there is no verdict; with one, the
		// violation stands (exit 1 below) and the trouble is reported beside it
		fresh := false
		for _, v := range viols {
			if _, isKnown := known[v.Sig]; v.Repro && !isKnown {
				fresh = true
			}
		}
		if !fresh {
			fmt.Fprintln(os.Stderr, "simcheck: machinery trouble, no verdict")
			return 2
		}
		fmt.Fprintln(os.Stderr, "simcheck: some workers did not finish; reporting the violations that reproduced")
	}
	// report
	exit := 0
	seen := map[string]bool{}
	nviol := 0
	sort.Slice(viols, func(i, j int) bool { return viols[i].Seed < viols[j].Seed })
	for _, v := range viols {
		if seen[v.Sig] {
			os.Remove(v.Replay) // another worker's replay of the same signature is reported
			continue
		}
		seen[v.Sig] = true
		if !v.Repro {
			fmt.Fprintf(os.Stderr, "simcheck: violation %s did not reproduce from its own tapes (%s): determinism trouble\n", v.Sig, v.Replay)
			return 2
		}
		nviol++
		fmt.Printf("VIOLATION property=%s replay=%s\n", *prop, v.Replay)
		fmt.Printf("  clause: %s\n  detail: %s\n", v.Viol.Clause, v.Viol.Detail)
		exit = 1
	}
	var knownKeys []string
	for k := range agg.KnownHits {
		knownKeys = append(knownKeys, k)
	}
	sort.Strings(knownKeys)
	for _, k := range knownKeys {
		fmt.Printf("KNOWN-FINDING: property=%s %s [clause %s; hit in %d runs; e.g. %s]\n", *prop, known[k].What, known[k].Clause, agg.KnownHits[k], agg.KnownSample[k])
	}
	hours := wall.Hours()
	fmt.Printf("simcheck: %s %s seed=%d: %d runs (%d non-trivial, %d distinct non-trivial histories, %d distinct schedules) in %.1fs = %.0f runs/h; sim time %.1fs; %d steps; blocked=%d inconclusive=%d violations=%d\n",
		*prop, *tier, *seed, agg.Runs, agg.Nontrivial, len(histSet), len(schedSet), wall.Seconds(), float64(agg.Runs)/hours, float64(agg.SimNanos)/1e9, agg.Steps, agg.Blocked, agg.Inconcl, nviol)
	for _, k := range sortedKeys(agg.Probes) {
		if agg.Probes[k] == 0 {
			fmt.Printf("simcheck: warning: probe %s stuck at 0\n", k)
		}
	}
	if !*noEvidence {
		if err := writeEvidence(*prop, *tier, *seed, agg, len(schedSet), len(histSet), wall, nviol, *workers); err != nil {
			fmt.Fprintln(os.Stderr, "simcheck: cannot write evidence:", err)
			return 2
		}
	}
	return exit
}

func tail(s string, n int) string {
	if len(s) > n {
		return "..." + s[len(s)-n:]
	}
	return s
}

func addMap(dst, src map[string]int) {
	for k, v := range src {
		dst[k] += v
	}
}

func sortedKeys(m map[string]int) []string {
	var ks []string
	for k := range m {
		ks = append(ks, k)
	}
	sort.Strings(ks)
	return ks
}

func writeEvidence(prop, tier string, seed uint64, agg *workerStats, nsched, nhist int, wall time.Duration, nviol, workers int) error {
	var docs []map[string]any
	var faultKinds []string
	for _, p := range core.Profiles(prop) {
		docs = append(docs, map[string]any{"profile": p.Name, "weight": p.Weight, "thorough_only": p.ThoroughOnly, "what": p.Doc, "runs": agg.Profiles[p.Name]})
		faultKinds = append(faultKinds, p.Faults...)
	}
	rw := map[string]int{}
	self, _ := os.Executable()
	if b, err := os.ReadFile(self + ".rewrite-stats"); err == nil {
		for _, l := range strings.Split(string(b), "\n") {
			f := strings.Fields(l)
			if len(f) == 2 {
				n, _ := strconv.Atoi(f[1])
				rw[f[0]] = n
			}
		}
	}
	samples := []any{}
	for _, s := range agg.Samples {
		samples = append(samples, s)
	}
	if len(samples) == 0 {
		samples = append(samples, "no non-trivial run in this batch")
	}
	hours := wall.Hours()
	cov := map[string]any{
		"evaluations":         agg.Runs,
		"distinct_nontrivial": nhist,
		"rule": "one evaluation = one simulated run (scenario generated from the run seed, then executed under a seeded scheduler with fault injection). " +
			"distinct = distinct hash of (scenario, ordered oracle-relevant event history); non-trivial = the profile's own rule (interleaved tasks inside the mechanism under test and/or a relevant fault fired), see profiles[].what",
		"samples":                    samples,
		"runs_per_hour":              float64(agg.Runs) / hours,
		"seeds_per_hour":             float64(agg.Runs) / hours,
		"distinct_seeds":             agg.Runs,
		"simulated_time_s":           float64(agg.SimNanos) / 1e9,
		"scheduler_steps":            agg.Steps,
		"context_switches":           agg.Switches,
		"tasks_created":              agg.Tasks,
		"distinct_schedules":         nsched,
		"distinct_schedules_measure": "hash of the sequence of task ids chosen at every scheduling decision",
		"nontrivial_runs":            agg.Nontrivial,
		"faults_fired":               agg.Faults,
		"fault_kinds_available":      faultKinds,
		"probes":                     agg.Probes,
		"strategies":                 agg.Strategies,
		"profiles":                   docs,
		"end_reasons":                agg.EndReasons,
		"blocked_runs":               agg.Blocked,
		"blocked_examples":           firstN(agg.BlockedWhy, 5),
		"inconclusive_runs":          agg.Inconcl,
		"inconclusive_examples":      firstN(agg.InconclWhy, 5),
		"known_findings_hit":         agg.KnownHits,
		"harness_notes":              agg.Notes,
		"workers":                    workers,
		"rewriter_stats":             rw,
		"real_components":            realComponents(prop),
		"stub_components":            stubComponents(prop),
		"exhaustive":                 false,
	}
	ev := map[string]any{
		"property_id": prop,
		"tier":        tier,
		"seed":        seed,
		"level":       "exploration",
		"coverage":    cov,
		"assumptions": []string{
			"seeded search over schedules and fault placements: a clean batch is evidence, not proof",
			"the simulator serialises tasks and pre-empts only before sync, sync/atomic, channel, timer, network and runtime.Gosched operations; Go's sequentially consistent atomics are assumed (no weak-memory effects)",
			"the code under test is /repo's working tree passed through tools/simrewrite (import redirection, go/chan/select/map-range rewriting); the rewriting is assumed semantics-preserving",
		},
		"wall_s":     wall.Seconds(),
		"violations": nviol,
	}
	b, err := json.MarshalIndent(ev, "", " ")
	if err != nil {
		return err
	}
	dir := filepath.Join(verifRoot(), "evidence")
	os.MkdirAll(dir, 0o755)
	return os.WriteFile(filepath.Join(dir, prop+".json"), b, 0o644)
}

func firstN(s []string, n int) []string {
	if len(s) > n {
		return s[:n]
	}
	if s == nil {
		return []string{}
	}
	return s
}

// ---------------------------------------------------------------- replay / one / hashes

func cmdReplay(args []string) int {
	fs := flag.NewFlagSet("replay", flag.ExitOnError)
	quiet := fs.Bool("q", false, "do not print the trace")
	fs.Parse(args)
	if fs.NArg() != 1 {
		fmt.Fprintln(os.Stderr, "usage: simcheck replay <file>")
		return 2
	}
	rf, err := core.LoadReplay(fs.Arg(0))
	if err != nil {
		fmt.Fprintln(os.Stderr, "simcheck:", err)
		return 2
	}
	p := core.FindProfile(rf.Property, rf.Profile)
	if p == nil {
		fmt.Fprintf(os.Stderr, "simcheck: profile %s/%s not in this build\n", rf.Property, rf.Profile)
		return 2
	}
	startWatchdog(90 * time.Second)
	o := core.Exec(p, rf.Tier, core.ReplayCfg(rf.Seed, rf.GenTape, rf.SchedTape, true))
	if tr := o.HarnessTrouble(); tr != "" {
		fmt.Fprintln(os.Stderr, "simcheck: HARNESS TROUBLE:", tr)
		return 2
	}
	if !*quiet {
		for _, l := range o.Scenario {
			fmt.Println("scenario:", l)
		}
		for _, l := range o.Sim.Trace {
			fmt.Println(l)
		}
		if o.Sim.Crash != nil {
			fmt.Println("CRASH:", o.Sim.Crash.Value)
			fmt.Println(o.Sim.Crash.Stack)
		}
	}
	hash := fmt.Sprintf("%016x", o.Sim.Hash)
	same := false
	for _, v := range o.Violations {
		if v.Sig() == rf.Violation.Sig() {
			same = true
			fmt.Printf("VIOLATION property=%s replay=%s\n  clause: %s\n  detail: %s\n", rf.Property, fs.Arg(0), v.Clause, v.Detail)
		}
	}
	fmt.Printf("replay: event-log hash %s (recorded %s), steps %d (recorded %d)\n", hash, rf.Hash, o.Sim.Steps, rf.Steps)
	if same && hash == rf.Hash {
		return 1 // reproduced exactly
	}
	if same {
		fmt.Println("replay: same violation, but the event log differs from the recorded one (the code changed?)")
		return 1
	}
	fmt.Println("replay: the recorded violation did NOT occur")
	return 0
}

func cmdOne(args []string) int {
	fs := flag.NewFlagSet("one", flag.ExitOnError)
	prop := fs.String("prop", "", "")
	profile := fs.String("profile", "", "")
	tier := fs.String("tier", "quick", "")
	seed := fs.Uint64("seed", 1, "")
	strat := fs.String("strategy", "", "")
	trace := fs.Bool("trace", true, "")
	fs.Parse(args)
	p := core.FindProfile(*prop, *profile)
	if p == nil {
		p = core.PickProfile(*prop, *tier, 0)
	}
	if p == nil {
		return 2
	}
	o := core.Exec(p, *tier, simrt.Config{Seed: *seed, Trace: *trace, Strategy: *strat})
	for _, l := range o.Scenario {
		fmt.Println("scenario:", l)
	}
	for _, l := range o.Sim.Trace {
		fmt.Println(l)
	}
	fmt.Printf("end=%s steps=%d switches=%d tasks=%d sim=%v strategy=%s hash=%016x nontrivial=%v\n", o.Sim.EndReason, o.Sim.Steps, o.Sim.Switches, o.Sim.Tasks,
		time.Duration(o.Sim.SimNanos), o.Sim.Strategy, o.Sim.Hash, o.Nontrivial)
	fmt.Println("probes:", o.Sim.Probes, "faults:", o.Sim.Faults, "notes:", o.Notes)
	if o.Sim.Crash != nil {
		fmt.Println("CRASH:", o.Sim.Crash.Value, "origin:", o.Sim.Crash.Origin, "harness:", o.Sim.Crash.Harness)
		fmt.Println(o.Sim.Crash.Stack)
	}
	for _, v := range o.Violations {
		fmt.Printf("VIOLATION %s: %s\n", v.Sig(), v.Detail)
	}
	for _, b := range o.Blocked {
		fmt.Println("BLOCKED:", b)
	}
	return 0
}

// cmdHashes prints one line per run: index, seed, event-log hash, schedule
// hash, steps. The determinism self-test runs it in several processes with
// different GOMAXPROCS and diffs the output.
func cmdHashes(args []string) int {
	fs := flag.NewFlagSet("hashes", flag.ExitOnError)
	prop := fs.String("prop", "", "")
	tier := fs.String("tier", "quick", "")
	seed := fs.Uint64("seed", 1, "")
	n := fs.Uint64("n", 100, "")
	fs.Parse(args)
	startWatchdog(90 * time.Second)
	for idx := uint64(0); idx < *n; idx++ {
		p := core.PickProfile(*prop, *tier, idx)
		if p == nil {
			return 2
		}
		s := core.MixSeed(*seed, idx)
		o := core.Exec(p, *tier, simrt.Config{Seed: s})
		if tr := o.HarnessTrouble(); tr != "" {
			fmt.Fprintln(os.Stderr, "HARNESS TROUBLE:", tr)
			return 2
		}
		// replay from its own tapes must give the same log
		o2 := core.Exec(p, *tier, core.ReplayCfg(s, o.Sim.GenTape, o.Sim.SchedTape, false))
		fmt.Printf("%d %s %d %016x %016x %d v=%d replay=%v\n", idx, p.Name, s, o.Sim.Hash, o.Sim.SchedHash, o.Sim.Steps, len(o.Violations), o2.Sim.Hash == o.Sim.Hash && o2.Sim.Steps == o.Sim.Steps)
	}
	return 0
}
