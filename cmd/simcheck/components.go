package main

import "os"

var famOf = map[string]string{
	"C14": "ring",
	"C01": "inbox+engine", "C02": "inbox+engine", "C03": "inbox+engine",
	"C04": "engine", "C05": "engine", "C06": "engine", "C07": "engine", "C08": "engine", "C09": "engine",
	"C10": "engine", "C11": "engine", "C12": "engine", "C13": "engine",
	"C15": "remote", "C16": "remote", "C17": "remote",
	"C18": "cluster", "C19": "cluster", "C20": "cluster",
}

func realComponents(prop string) []string {
	switch famOf[prop] {
	case "ring":
		return []string{"hollywood/ringbuffer (real code, rewritten only by simrewrite)"}
	case "inbox+engine", "engine":
		return []string{"hollywood/ringbuffer", "hollywood/safemap", "hollywood/actor: Engine, Registry, Inbox, process, Context, eventStream, Response, PID (all real code, rewritten only by simrewrite)"}
	case "remote":
		return []string{"hollywood/ringbuffer", "hollywood/safemap", "hollywood/actor", "hollywood/remote: Remote, streamRouter, streamWriter, streamReader, ProtoSerializer, vtproto Envelope marshal/unmarshal, generated DRPCRemote client/server glue", "storj.io/drpc/drpcmux (real)"}
	case "cluster":
		return []string{"hollywood/ringbuffer", "hollywood/safemap", "hollywood/actor", "hollywood/remote", "hollywood/cluster: Cluster, Agent, MemberSet, SelfManaged provider, activation", "storj.io/drpc/drpcmux (real)"}
	}
	return nil
}

func stubComponents(prop string) []string {
	base := []string{"Go runtime scheduler -> simrt seeded scheduler (one task runs at a time)", "time -> simulated clock", "math/rand -> seeded PRNG", "map iteration order -> canonical order permuted by the scheduler"}
	switch famOf[prop] {
	case "remote", "cluster":
		base = append(base, "net/tls -> simnet (in-memory connections with latency, refusal, break, corruption)", "storj.io/drpc drpcconn/drpcserver/drpcmanager/drpcwire -> message-level stub (real encoding, real drpcmux)")
	}
	if famOf[prop] == "cluster" {
		base = append(base, "grandcat/zeroconf (mDNS) -> in-simulator discovery registry", "cluster/consul_provider.go: left out of the build (needs an external Consul server)")
	}
	return base
}

func envOr(name, def string) string {
	if v := os.Getenv(name); v != "" {
		return v
	}
	return def
}
