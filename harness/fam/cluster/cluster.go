// Package cluster is the F-agent / F-cluster scenario family: real
// cluster.Cluster + Agent (+ real SelfManaged provider over the simulated
// discovery service) on 1-4 simulated nodes. Properties C18, C19, C20.
package cluster

import (
	"fmt"
	"sort"
	"strings"
	"time"

	"github.com/anthdm/hollywood/actor"
	hcluster "github.com/anthdm/hollywood/cluster"
	hremote "github.com/anthdm/hollywood/remote"

	"verif/harness/core"
	simnet "verif/sim/simnet"
	"verif/sim/simrt"
)

// noProvider is a provider that does nothing: the harness plays the provider
// by sending membership snapshots to the agent itself.
func noProvider(c *hcluster.Cluster) actor.Producer {
	return func() actor.Receiver { return nopReceiver{} }
}

type nopReceiver struct{}

func (nopReceiver) Receive(*actor.Context) {}

type evRec struct {
	seq int
	ev  any
}

type node struct {
	n      int
	id     string
	addr   string
	c      *hcluster.Cluster
	kinds  []string
	events []evRec
	up     bool
	spawns map[string]int // kind/id -> producer calls on this node
}

type world struct {
	rc    *core.RunCtx
	seq   int
	nodes []*node
	// probability that a node with a remote is created WithEngine instead of WithListenAddr
	ownEngineP float64
}

func (w *world) tick() int { w.seq++; return w.seq }

func addrOf(n int) string { return fmt.Sprintf("10.1.0.%d:5000", n) }

func pidS(p *actor.PID) string {
	if p == nil {
		return "nil"
	}
	return p.Address + "|" + p.ID
}

func crashPost(rc *core.RunCtx, prop string) func(res *simrt.Result) {
	return func(res *simrt.Result) {
		if res.Crash != nil && !res.Crash.Harness {
			site := res.Crash.Origin
			if i := strings.LastIndex(site, "/"); i >= 0 {
				site = site[i+1:]
			}
			rc.Violate("process-crash/"+site, "node %d: un-recovered panic in task %q: %s (raised in %s)", res.Crash.Node, res.Crash.Task, core.FirstLine(res.Crash.Value), res.Crash.Origin)
		}
		if res.EndReason == "steps" {
			rc.Block("step budget exhausted")
		}
	}
}

// startNode creates a cluster node with the given kinds; provider nil = the
// real SelfManaged provider.
func (w *world) startNode(n int, id string, kinds []string, provider hcluster.Producer, withRemote bool) *node {
	old := simrt.SetNode(n)
	defer simrt.SetNode(old)
	simrt.NodeUp(n)
	nd := &node{n: n, id: id, addr: addrOf(n), kinds: kinds, up: true, spawns: map[string]int{}}
	cfg := hcluster.NewConfig().WithID(id).WithListenAddr(nd.addr).WithRegion("default")
	if provider != nil {
		cfg = cfg.WithProvider(provider)
	}
	if !withRemote {
		e, err := actor.NewEngine(actor.NewEngineConfig())
		if err != nil {
			panic(err)
		}
		cfg = cfg.WithEngine(e)
		nd.addr = e.Address()
	} else if w.ownEngineP > 0 && simrt.G().Bool(w.ownEngineP) {
		// the application brings its own engine and remote (WithEngine); the
		// config's listen address stays at its unused default
		e, err := actor.NewEngine(actor.NewEngineConfig().WithRemote(hremote.New(nd.addr, hremote.NewConfig())))
		if err != nil {
			panic(err)
		}
		cfg = hcluster.NewConfig().WithID(id).WithRegion("default").WithEngine(e)
		if provider != nil {
			cfg = cfg.WithProvider(provider)
		}
		w.rc.Scen("node %s is created WithEngine (own engine and remote at %s)", id, nd.addr)
	}
	c, err := hcluster.New(cfg)
	if err != nil {
		panic(err)
	}
	nd.c = c
	for _, k := range kinds {
		k := k
		c.RegisterKind(k, w.kindProducer(nd, k), hcluster.NewKindConfig())
	}
	mon := c.Engine().SpawnFunc(func(ctx *actor.Context) {
		switch ctx.Message().(type) {
		case actor.Initialized, actor.Started, actor.Stopped:
			return
		}
		nd.events = append(nd.events, evRec{w.tick(), ctx.Message()})
		simrt.Ev("node%d(%s) event %T", n, id, ctx.Message())
	}, "monitor", actor.WithID("m"))
	c.Engine().Subscribe(mon)
	c.Start()
	w.nodes = append(w.nodes, nd)
	return nd
}

func (w *world) kindProducer(nd *node, kind string) actor.Producer {
	return func() actor.Receiver {
		return &kindActor{w: w, nd: nd, kind: kind}
	}
}

type kindActor struct {
	w    *world
	nd   *node
	kind string
	id   string
}

func (k *kindActor) Receive(c *actor.Context) {
	switch c.Message().(type) {
	case actor.Initialized:
		k.id = c.PID().ID
		k.nd.spawns[k.id]++
		simrt.Ev("node%d spawned %s", k.nd.n, k.id)
	case actor.Stopped:
		k.nd.spawns["stopped:"+k.id]++
		simrt.Ev("node%d stopped %s", k.nd.n, k.id)
	case busyMsg:
		// keeps the actor inside Receive while more arrives behind it
		simrt.Sleep(50 * time.Millisecond)
	case boomMsg:
		if k.nd.spawns["boomed:"+k.id] == 0 {
			k.nd.spawns["boomed:"+k.id]++
			simrt.Fault("actor-crash-in-Receive")
			simrt.ScriptedPanic("scripted crash of " + k.id)
		}
	}
}

// busyMsg and boomMsg are local messages for activated actors: busy keeps the
// actor in Receive for 50 simulated ms, boom makes it panic (once per id).
type busyMsg struct{}
type boomMsg struct{}

func member(nd *node) *hcluster.Member {
	return &hcluster.Member{ID: nd.id, Host: nd.addr, Kinds: append([]string{}, nd.kinds...), Region: "default"}
}

// pushMembers plays the provider: every live node gets the current snapshot.
func (w *world) pushMembers() {
	var ms []*hcluster.Member
	for _, nd := range w.nodes {
		if nd.up {
			ms = append(ms, member(nd))
		}
	}
	for _, nd := range w.nodes {
		if nd.up {
			cp := make([]*hcluster.Member, len(ms))
			copy(cp, ms)
			nd.c.Engine().Send(nd.c.PID(), &hcluster.Members{Members: cp})
		}
	}
}

func (w *world) crash(nd *node) {
	simrt.Fault("node-crash")
	simnet.Net().BreakNode(nd.n)
	simrt.KillNode(nd.n)
	nd.up = false
}

func idsOf(ms []*hcluster.Member) []string {
	var out []string
	for _, m := range ms {
		if m != nil {
			out = append(out, m.ID)
		}
	}
	sort.Strings(out)
	return out
}

// ------------------------------------------------------------------ C18

type uMember struct {
	id    string
	host  string
	kinds []string
}

func runMembership(rc *core.RunCtx) {
	g := simrt.G()
	w := &world{rc: rc}
	rc.PostRun = crashPost(rc, "C18")
	allKinds := []string{"ka", "kb", "kc", "kd"}
	pickKinds := func() []string {
		var ks []string
		for _, k := range allKinds {
			if g.Bool(0.4) {
				ks = append(ks, k)
			}
		}
		return ks
	}
	selfKinds := pickKinds()
	self := w.startNode(1, "A", selfKinds, noProvider, false)
	nuni := g.Range(1, 5)
	uni := []uMember{{id: "A", host: self.addr, kinds: selfKinds}}
	for i := 0; i < nuni; i++ {
		host := fmt.Sprintf("10.9.0.%d:1", i+1)
		if g.Bool(0.15) {
			// another cluster member on this very engine (shared WithEngine)
			host = self.addr
		} else if i > 0 && g.Bool(0.3) {
			// a node restarted under a new id on the same address: two members, one host
			host = uni[len(uni)-1].host
		}
		uni = append(uni, uMember{id: fmt.Sprintf("m%d", i), host: host, kinds: pickKinds()})
	}
	for _, u := range uni {
		rc.Scen("universe %s host=%s kinds=%v", u.id, u.host, u.kinds)
	}
	nsnap := g.Range(1, 6)
	if rc.Tier == "thorough" {
		nsnap = g.Range(1, 12)
	}
	var snaps [][]int // indices into uni, always containing 0 (self), possibly with duplicates
	for s := 0; s < nsnap; s++ {
		snap := []int{0}
		switch {
		case s > 0 && g.Bool(0.15):
			snap = append([]int{}, snaps[s-1]...) // repeated
		default:
			for i := 1; i < len(uni); i++ {
				if g.Bool(0.5) {
					snap = append(snap, i)
					if g.Bool(0.15) {
						snap = append(snap, i) // duplicate entry
					}
				}
			}
			if g.Bool(0.2) {
				snap = append(snap, 0)
			}
		}
		// scheduler-independent shuffle from the generation tape
		for i := len(snap) - 1; i > 0; i-- {
			j := g.IntN(i + 1)
			snap[i], snap[j] = snap[j], snap[i]
		}
		snaps = append(snaps, snap)
		rc.Scen("snapshot %d: %v", s, names(uni, snap))
	}
	burst := g.Bool(0.4) // send all snapshots without waiting, with concurrent readers
	preActivate := g.Bool(0.4)
	rc.Scen("burst=%v activation-before-later-snapshots=%v", burst, preActivate)
	// the member lists as the provider sends them; now and then a member (not
	// the observer) is listed under another address than before: same id, same
	// member
	lists := make([][]*hcluster.Member, len(snaps))
	for j, snap := range snaps {
		for _, i := range snap {
			u := uni[i]
			host := u.host
			if i > 0 && g.Bool(0.12) {
				host = fmt.Sprintf("10.9.1.%d:1", i)
				rc.Scen("snapshot %d lists %s under %s", j, u.id, host)
			}
			lists[j] = append(lists[j], &hcluster.Member{ID: u.id, Host: host, Kinds: append([]string{}, u.kinds...), Region: "default"})
		}
	}
	if g.Bool(0.3) {
		// the monitor is subscribed a second time through another PID object
		self.c.Engine().Subscribe(actor.NewPID(self.c.Engine().Address(), "monitor/m"))
	}
	// model
	view := map[string]bool{}
	type state struct {
		ids   []string
		kinds map[string]bool
	}
	var states []state // states[j] = after j+1 snapshots
	wantJoin := map[string]int{}
	wantLeave := map[string]int{}
	for _, snap := range snaps {
		nv := map[string]bool{}
		for _, i := range snap {
			nv[uni[i].id] = true
		}
		for id := range nv {
			if !view[id] {
				wantJoin[id]++
			}
		}
		for id := range view {
			if !nv[id] {
				wantLeave[id]++
			}
		}
		view = nv
		st := state{kinds: map[string]bool{}}
		for _, u := range uni {
			if view[u.id] {
				st.ids = append(st.ids, u.id)
				for _, k := range u.kinds {
					st.kinds[k] = true
				}
			}
		}
		sort.Strings(st.ids)
		states = append(states, st)
	}
	e := self.c.Engine()
	check := func(j int, when string) {
		got := idsOf(self.c.Members())
		if strings.Join(got, ",") != strings.Join(states[j].ids, ",") {
			rc.Violate("members-mismatch/"+when, "after snapshot %d Members()=%v, snapshot=%v", j, got, states[j].ids)
		}
		for _, k := range allKinds {
			if hk := self.c.HasKind(k); hk != states[j].kinds[k] {
				rc.Violate("haskind-mismatch/"+when, "after snapshot %d HasKind(%s)=%v, some member of the view advertises it: %v (view %v)", j, k, hk, states[j].kinds[k], states[j].ids)
			}
		}
	}
	if !burst {
		for j := range snaps {
			e.Send(self.c.PID(), &hcluster.Members{Members: lists[j]})
			simrt.WaitQuiet(10 * time.Second)
			check(j, "quiescent")
			if j == 0 && preActivate {
				// the agent has something activated from now on: later joiners are
				// sent the topology (and must still be announced)
				self.c.Spawn(func() actor.Receiver { return nopReceiver{} }, "pre", actor.WithID("1"))
				simrt.WaitQuiet(10 * time.Second)
			}
		}
	} else {
		readers := g.Range(1, 2)
		type obs struct {
			ids string
		}
		results := make([][]string, readers)
		done := 0
		for r := 0; r < readers; r++ {
			r := r
			simrt.GoNode(1, fmt.Sprintf("reader%d", r), func() {
				for i := 0; i < 3; i++ {
					results[r] = append(results[r], strings.Join(idsOf(self.c.Members()), ","))
					simrt.Yield(simrt.OpUser)
				}
				done++
			})
		}
		simrt.GoNode(1, "provider", func() {
			for j := range snaps {
				e.Send(self.c.PID(), &hcluster.Members{Members: lists[j]})
			}
		})
		simrt.WaitQuiet(10 * time.Second)
		if done != readers {
			rc.Violate("reader-blocked", "Members() did not return for %d of %d readers", readers-done, readers)
		}
		for r, res := range results {
			lo := -1 // index of the last matched state (-1 = before the first snapshot: empty view)
			for _, got := range res {
				ok := false
				for j := lo; j < len(states); j++ {
					want := ""
					if j >= 0 {
						want = strings.Join(states[j].ids, ",")
					}
					if got == want {
						ok = true
						lo = j
						break
					}
				}
				if !ok {
					rc.Violate("concurrent-read-not-a-prefix-state", "reader %d saw Members()=[%s], which is not the view after any (later) prefix of the snapshots", r, got)
				}
			}
		}
		check(len(states)-1, "after-burst")
	}
	// events: exactly one join / leave per model transition
	gotJoin, gotLeave := map[string]int{}, map[string]int{}
	for _, ev := range self.events {
		switch v := ev.ev.(type) {
		case hcluster.MemberJoinEvent:
			gotJoin[v.Member.ID]++
		case hcluster.MemberLeaveEvent:
			gotLeave[v.Member.ID]++
		}
	}
	for _, u := range uni {
		if gotJoin[u.id] != wantJoin[u.id] {
			rc.Violate("join-event-count", "member %s: %d MemberJoinEvents, %d joins in the snapshot history", u.id, gotJoin[u.id], wantJoin[u.id])
		}
		if gotLeave[u.id] != wantLeave[u.id] {
			rc.Violate("leave-event-count", "member %s: %d MemberLeaveEvents, %d leaves in the snapshot history", u.id, gotLeave[u.id], wantLeave[u.id])
		}
	}
	rc.Nontrivial = len(snaps) > 1
}

func names(uni []uMember, snap []int) []string {
	var out []string
	for _, i := range snap {
		out = append(out, uni[i].id)
	}
	return out
}

func cfgCluster(cfg *simrt.Config, tier string) {
	cfg.MaxSteps = 1_500_000
}

func init() {
	core.Register(&core.Profile{Property: "C18", Name: "membership", Weight: 4, Cfg: cfgCluster, Run: runMembership,
		Doc: "one real Cluster+Agent with a harness provider; universe of up to 6 members with kind sets over 4 kinds; histories of 1-12 snapshots (grow, shrink, repeat, duplicate entries, shuffled, always containing the observing node) sent one at a time with quiescence in between, or as a burst with 1-2 concurrent reader tasks calling Members(); oracle: reference model (set difference): Members() equals the snapshot by id, HasKind(k) iff a member of the view advertises k, exactly one MemberJoinEvent/MemberLeaveEvent per model transition, concurrent reads equal the view after some monotonically advancing prefix"})
}
