package cluster

import (
	"fmt"
	"sort"
	"strings"
	"time"

	"github.com/anthdm/hollywood/actor"
	hcluster "github.com/anthdm/hollywood/cluster"

	"verif/harness/core"
	simnet "verif/sim/simnet"
	"verif/sim/simrt"
	simzeroconf "verif/sim/simzeroconf"
)

// C20, message-level: discovery is driven by the harness (who hears whose
// announcement, one at a time), nodes may be given bootstrap members, and a
// model of the handshake protocol says exactly which member list every
// provider must report after each step:
//
//	handshake x -> y :  y adds x and answers with its complete list; x adds all of it
//	unreachable(a) at n:  n removes the member with address a, if it has one
func runProtocol(rc *core.RunCtx) {
	g := simrt.G()
	w := &world{rc: rc}
	rc.PostRun = crashPost(rc, "C20")
	simrt.SetBigInboxCap(1024)
	simnet.Net().MaxLatency = g.Range(0, 2)
	simzeroconf.SetManual(true)
	nn := g.Range(2, 4)
	model := map[string]map[string]bool{}
	byID := map[string]*node{}
	handshake := func(x, y *node) {
		model[y.id][x.id] = true
		for id, in := range model[y.id] {
			if in {
				model[x.id][id] = true
			}
		}
	}
	settle := func(d time.Duration) { simrt.WaitQuiet(d) }
	check := func(after string) {
		for _, nd := range w.live() {
			got := idsOf(nd.c.Members())
			var want []string
			for id, ok := range model[nd.id] {
				if ok {
					want = append(want, id)
				}
			}
			sort.Strings(want)
			if strings.Join(got, ",") != strings.Join(want, ",") {
				rc.Violate("member-list-mismatch/"+after, "after %s: node %s reports members %v to its agent, the handshake protocol gives %v", after, nd.id, got, want)
			}
			for _, ev := range nd.events {
				if r, ok := ev.ev.(actor.ActorRestartedEvent); ok && strings.HasPrefix(r.PID.ID, "provider/") {
					rc.Violate("provider-restarted/"+after, "after %s: the provider of node %s crashed and was restarted", after, nd.id)
					break
				}
			}
		}
	}
	for i := 1; i <= nn; i++ {
		// ids that are string prefixes of one another: different nodes all the same
		id := []string{"", "P1", "P10", "P100", "P2"}[i]
		cfg := hcluster.NewSelfManagedConfig()
		var boots []*node
		for _, o := range w.nodes {
			if g.Bool(0.5) {
				cfg = cfg.WithBootstrapMember(hcluster.MemberAddr{ListenAddr: o.addr, ID: o.id})
				boots = append(boots, o)
				if g.Bool(0.15) {
					// the same bootstrap member listed twice: a repeated handshake
					cfg = cfg.WithBootstrapMember(hcluster.MemberAddr{ListenAddr: o.addr, ID: o.id})
					boots = append(boots, o)
				}
			}
		}
		nd := w.startNode(i, id, []string{"ka"}, hcluster.NewSelfManagedProvider(cfg), true)
		byID[id] = nd
		model[id] = map[string]bool{id: true}
		var bs []string
		for _, b := range boots {
			bs = append(bs, b.id)
		}
		rc.Scen("start %s addr=%s bootstrap=%v", id, nd.addr, bs)
		settle(time.Second)
		for _, b := range boots {
			handshake(nd, b)
		}
		check("bootstrap")
	}
	sinks := map[string]*actor.PID{}
	ambiguous := map[string]bool{} // addresses listed under more than one id somewhere
	nops := g.Range(1, 8)
	for op := 0; op < nops; op++ {
		live := w.live()
		at := live[g.IntN(len(live))]
		switch g.Pick(6, 3, 2, 1, 2, 2, 2, 1) {
		case 0: // at hears the announcement of another node and handshakes it
			o := live[g.IntN(len(live))]
			if o == at {
				continue
			}
			rc.Scen("op%d: %s discovers %s", op, at.id, o.id)
			if !simzeroconf.Deliver(at.n, o.id) {
				rc.Inconclusive("no announcement of %s to deliver", o.id)
				return
			}
			settle(time.Second)
			handshake(at, o)
			check("discovery")
		case 1: // unreachable report for a member
			var cands []*node
			for _, o := range w.nodes {
				// (an address listed under two ids would make "the member with that address" ambiguous)
				if o != at && model[at.id][o.id] && !ambiguous[o.addr] {
					cands = append(cands, o)
				}
			}
			if model[at.id][at.id] && !ambiguous[at.addr] && g.Bool(0.15) {
				// the node's own address is reported (it is a member of its own list):
				// it leaves its own list, possibly leaving it empty
				cands = []*node{at}
			}
			if len(cands) == 0 {
				continue
			}
			x := cands[g.IntN(len(cands))]
			n := 1 + g.Pick(3, 2)
			rc.Scen("op%d: %s is told %d times that %s is unreachable", op, at.id, n, x.id)
			for k := 0; k < n; k++ {
				simrt.Fault("unreachable-report-member")
				at.c.Engine().BroadcastEvent(actor.RemoteUnreachableEvent{ListenAddr: x.addr})
			}
			settle(time.Second)
			model[at.id][x.id] = false
			check("unreachable-member")
		case 2: // unreachable report for a non-member
			addr := "10.77.0.1:9"
			for _, o := range w.nodes {
				if o != at && !model[at.id][o.id] && !ambiguous[o.addr] && g.Bool(0.5) {
					addr = o.addr
				}
			}
			rc.Scen("op%d: %s is told non-member %s is unreachable", op, at.id, addr)
			simrt.Fault("unreachable-report-non-member")
			at.c.Engine().BroadcastEvent(actor.RemoteUnreachableEvent{ListenAddr: addr})
			settle(time.Second)
			check("unreachable-non-member")
		case 3:
			rc.Scen("op%d: 5s pass", op)
			settle(5 * time.Second)
			check("idle")
		case 4: // a peer's handshake arrives and right behind it the report that the peer is unreachable
			fake := &hcluster.Member{ID: fmt.Sprintf("F%d", op), Host: fmt.Sprintf("10.88.0.%d:4000", op+1), Kinds: []string{"ka"}}
			if sinks[at.id] == nil {
				sinks[at.id] = at.c.Engine().SpawnFunc(func(*actor.Context) {}, "sink")
			}
			rc.Scen("op%d: %s gets the handshake of %s (%s) and then the report that %s is unreachable", op, at.id, fake.ID, fake.Host, fake.Host)
			simrt.Fault("handshake-then-unreachable")
			if g.Bool(0.4) {
				// a handshake that carries no sender: the peer is added, the answer has nowhere to go
				rc.Scen("op%d: (handshake sent without a sender)", op)
				at.c.Engine().Send(actor.NewPID(at.addr, "provider/"+at.id), &hcluster.Handshake{Member: fake})
			} else {
				at.c.Engine().SendWithSender(actor.NewPID(at.addr, "provider/"+at.id), &hcluster.Handshake{Member: fake}, sinks[at.id])
			}
			at.c.Engine().BroadcastEvent(actor.RemoteUnreachableEvent{ListenAddr: fake.Host})
			settle(time.Second)
			// joined, then left: both reached the provider in that order
			check("handshake-then-unreachable")
		case 7: // a peer with a new id advertises an address that is already listed (also: this node's own)
			fid := fmt.Sprintf("S%d", op)
			o := live[g.IntN(len(live))]
			if !model[at.id][o.id] {
				o = at
			}
			if sinks[at.id] == nil {
				sinks[at.id] = at.c.Engine().SpawnFunc(func(*actor.Context) {}, "sink")
			}
			rc.Scen("op%d: %s gets the handshake of %s, which advertises %s - the address %s is listed under: a handshake only adds", op, at.id, fid, o.addr, o.id)
			simrt.Fault("handshake-with-listed-address")
			ambiguous[o.addr] = true
			at.c.Engine().SendWithSender(actor.NewPID(at.addr, "provider/"+at.id), &hcluster.Handshake{Member: &hcluster.Member{ID: fid, Host: o.addr, Kinds: []string{"ka"}}}, sinks[at.id])
			settle(time.Second)
			model[at.id][fid] = true
			check("handshake-with-listed-address")
		case 6: // a stale peer pings, at this node's address, the provider of another node id
			var other string
			for _, o := range w.nodes {
				if o != at && (other == "" || strings.HasPrefix(at.id, o.id)) {
					other = o.id
				}
			}
			if other == "" {
				continue
			}
			rc.Scen("op%d: a message for provider/%s arrives at %s (%s): a dead letter there, nothing else", op, other, at.id, at.addr)
			simrt.Fault("stale-ping-for-other-provider-id")
			at.c.Engine().Send(actor.NewPID(at.addr, "provider/"+other), &actor.Ping{})
			settle(time.Second)
			check("stale-ping")
		case 5: // a peer is lost at one address and comes back under the same id from another one
			fid := fmt.Sprintf("R%d", op)
			h1, h2 := fmt.Sprintf("10.88.1.%d:4000", op+1), fmt.Sprintf("10.88.2.%d:4000", op+1)
			if sinks[at.id] == nil {
				sinks[at.id] = at.c.Engine().SpawnFunc(func(*actor.Context) {}, "sink")
			}
			prov := actor.NewPID(at.addr, "provider/"+at.id)
			short := 200 * time.Millisecond // well inside the pinger's period and the dial back-off
			rc.Scen("op%d: at %s, %s joins from %s, %s is reported unreachable, %s joins again from %s, a late report for %s arrives, finally %s is reported unreachable", op, at.id, fid, h1, h1, fid, h2, h1, h2)
			simrt.Fault("rejoin-from-new-address")
			at.c.Engine().SendWithSender(prov, &hcluster.Handshake{Member: &hcluster.Member{ID: fid, Host: h1, Kinds: []string{"ka"}}}, sinks[at.id])
			at.c.Engine().BroadcastEvent(actor.RemoteUnreachableEvent{ListenAddr: h1})
			settle(short)
			check("rejoin/left-old-address")
			at.c.Engine().SendWithSender(prov, &hcluster.Handshake{Member: &hcluster.Member{ID: fid, Host: h2, Kinds: []string{"ka"}}}, sinks[at.id])
			settle(short)
			model[at.id][fid] = true
			check("rejoin/joined-from-new-address")
			at.c.Engine().BroadcastEvent(actor.RemoteUnreachableEvent{ListenAddr: h1})
			settle(short)
			// the old address belongs to nobody now: the member stays
			check("rejoin/late-report-for-old-address")
			at.c.Engine().BroadcastEvent(actor.RemoteUnreachableEvent{ListenAddr: h2})
			settle(short)
			model[at.id][fid] = false
			check("rejoin/left-new-address")
		}
	}
	rc.Nontrivial = true
}

func init() {
	core.Register(&core.Profile{Property: "C20", Name: "protocol", Weight: 4, Cfg: cfgCluster, Run: runProtocol,
		Doc:    "2-4 real nodes with the real SelfManaged provider; discovery is harness-driven (who hears whose announcement, one at a time - mDNS is lossy and asymmetric), nodes get random bootstrap members (also listed twice); unreachable reports for members (1-3 times in a row) and non-members; oracle: a message-level model of the handshake protocol (y adds x and answers with its complete list, x adds all of it; an unreachable member - and only it - is removed) gives the exact member list every provider must have reported after each step; no provider restart",
		Faults: []string{"asymmetric discovery", "repeated handshake", "unreachable-report-member", "unreachable-report-non-member"}})
}
