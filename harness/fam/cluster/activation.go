package cluster

import (
	"fmt"
	"sort"
	"strings"
	"time"

	"github.com/anthdm/hollywood/actor"
	hcluster "github.com/anthdm/hollywood/cluster"

	"verif/harness/core"
	simnet "verif/sim/simnet"
	"verif/sim/simrt"
)

// ------------------------------------------------------------------ C19

type actModel struct {
	active map[string]string // "kind/id" -> host address
}

func (w *world) live() []*node {
	var out []*node
	for _, nd := range w.nodes {
		if nd.up {
			out = append(out, nd)
		}
	}
	return out
}

func hasKind(nd *node, k string) bool {
	for _, x := range nd.kinds {
		if x == k {
			return true
		}
	}
	return false
}

// selectRule r picks the (r mod 3 mod n)-th capable member by id; for r >= 3
// it answers with an equal description of that member instead of the very
// object it was offered (what Cluster.Member() or a decoded message gives).
func selectRule(r int) hcluster.SelectMemberFunc {
	return func(d hcluster.ActivationDetails) *hcluster.Member {
		ms := append([]*hcluster.Member{}, d.Members...)
		sort.Slice(ms, func(i, j int) bool { return ms[i].ID < ms[j].ID })
		if len(ms) == 0 {
			return nil
		}
		m := ms[(r%3)%len(ms)]
		if r >= 3 {
			return &hcluster.Member{ID: m.ID, Host: m.Host, Kinds: append([]string{}, m.Kinds...), Region: m.Region}
		}
		return m
	}
}

func (w *world) checkViews(rc *core.RunCtx, m *actModel, kinds []string, after string) {
	for _, nd := range w.live() {
		for id, host := range m.active {
			got := nd.c.GetActiveByID(id)
			want := host + "|" + id
			if pidS(got) != want {
				rc.Violate("view-mismatch-by-id/"+after, "after %s: node %s resolves GetActiveByID(%s)=%s, the cluster has it at %s", after, nd.id, id, pidS(got), want)
			}
		}
		for _, k := range kinds {
			var want []string
			for id, host := range m.active {
				if strings.Split(id, "/")[0] == k {
					want = append(want, host+"|"+id)
				}
			}
			sort.Strings(want)
			var got []string
			for _, p := range nd.c.GetActiveByKind(k) {
				if p != nil {
					got = append(got, pidS(p))
				}
			}
			sort.Strings(got)
			if strings.Join(got, ",") != strings.Join(want, ",") {
				rc.Violate("view-mismatch-by-kind/"+after, "after %s: node %s lists GetActiveByKind(%s)=%v, the cluster has %v", after, nd.id, k, got, want)
			}
		}
		// nothing that is not active may resolve
		for _, k := range kinds {
			for x := 0; x < len(actIDs); x++ {
				id := k + "/" + actIDs[x]
				if _, ok := m.active[id]; !ok {
					if got := nd.c.GetActiveByID(id); got != nil {
						rc.Violate("stale-entry/"+after, "after %s: node %s still resolves %s to %s", after, nd.id, id, pidS(got))
					}
				}
			}
		}
	}
}

// ids of activations: plain, containing the separator, and shapes that a path
// cleaner would rewrite (they are distinct ids all the same)
var actIDs = []string{"x0", "x1", "r/1", "r//1", "q/./2", "t/"}

func runActivation(rc *core.RunCtx) {
	g := simrt.G()
	w := &world{rc: rc, ownEngineP: 0.3}
	rc.PostRun = crashPost(rc, "C19")
	simrt.SetBigInboxCap(1024)
	simnet.Net().MaxLatency = g.Range(0, 3)
	allKinds := []string{"ka", "kb", "kc"}
	nn := g.Range(1, 3)
	maxNodes := 4
	mkKinds := func() []string {
		var ks []string
		for _, k := range allKinds {
			if g.Bool(0.55) {
				ks = append(ks, k)
			}
		}
		return ks
	}
	next := 0
	addNode := func() *node {
		next++
		nd := w.startNode(next, fmt.Sprintf("N%d", next), mkKinds(), noProvider, true)
		rc.Scen("node %s addr=%s kinds=%v", nd.id, nd.addr, nd.kinds)
		return nd
	}
	for i := 0; i < nn; i++ {
		addNode()
	}
	w.pushMembers()
	simrt.WaitQuiet(5 * time.Second)
	m := &actModel{active: map[string]string{}}
	nops := g.Range(2, 8)
	if rc.Tier == "thorough" {
		nops = g.Range(2, 16)
	}
	settle := func() { simrt.WaitQuiet(5 * time.Second) }
	for op := 0; op < nops; op++ {
		live := w.live()
		if len(live) == 0 {
			break
		}
		by := live[g.IntN(len(live))]
		switch g.Pick(6, 2, 2, 2, 2) {
		case 0: // activate
			k := allKinds[g.IntN(len(allKinds))]
			x := actIDs[g.Pick(4, 4, 3, 1, 1, 1)] // ids may contain the separator
			id := k + "/" + x
			r := g.IntN(3)
			if g.Bool(0.3) {
				r += 3 // same choice, answered with an equal copy of the member
			}
			var capable []*node
			for _, nd := range live {
				if hasKind(nd, k) {
					capable = append(capable, nd)
				}
			}
			sort.Slice(capable, func(i, j int) bool { return capable[i].id < capable[j].id })
			rc.Scen("op%d: %s.Activate(%s, rule %d)", op, by.id, id, r)
			before := map[string]int{}
			for _, nd := range live {
				before[nd.id] = nd.spawns[id]
			}
			// a config that did not come from the constructor: no select function, empty region
			zeroCfg := g.Bool(0.12)
			var got *actor.PID
			if zeroCfg {
				rc.Scen("op%d: (zero-value ActivationConfig: the default selection applies, any capable member may be chosen)", op)
				got = by.c.Activate(k, hcluster.ActivationConfig{}.WithID(x))
			} else {
				got = by.c.Activate(k, hcluster.NewActivationConfig().WithID(x).WithSelectMemberFunc(selectRule(r)))
			}
			settle()
			_, dup := m.active[id]
			switch {
			case dup || len(capable) == 0:
				why := "no-capable-member"
				if dup {
					why = "duplicate"
				}
				if got != nil {
					rc.Violate("activate-should-return-nil/"+why, "%s.Activate(%s) returned %s although %s", by.id, id, pidS(got), why)
				}
				for _, nd := range live {
					if nd.spawns[id] != before[nd.id] {
						rc.Violate("activate-spawned-anyway/"+why, "%s.Activate(%s) spawned an actor on %s although %s", by.id, id, nd.id, why)
					}
				}
			default:
				sel := capable[(r%3)%len(capable)]
				if zeroCfg && got != nil {
					// default (random) selection: whichever capable member was chosen
					for _, nd := range capable {
						if nd.addr == got.Address {
							sel = nd
						}
					}
				}
				want := sel.addr + "|" + id
				if pidS(got) != want {
					rc.Violate("activate-wrong-result", "%s.Activate(%s) returned %s, expected %s (selected member %s)", by.id, id, pidS(got), want, sel.id)
				}
				n := 0
				for _, nd := range live {
					d := nd.spawns[id] - before[nd.id]
					n += d
					if d > 0 && nd != sel {
						rc.Violate("activated-on-wrong-member", "%s was spawned on %s, the select function chose %s", id, nd.id, sel.id)
					}
				}
				if n != 1 {
					rc.Violate("activation-spawn-count", "%s.Activate(%s) spawned %d actors", by.id, id, n)
				}
				if n >= 1 || got != nil {
					m.active[id] = sel.addr
				}
			}
			w.checkViews(rc, m, allKinds, "activate")
		case 1: // deactivate
			var ids []string
			for id := range m.active {
				ids = append(ids, id)
			}
			if len(ids) == 0 {
				continue
			}
			sort.Strings(ids)
			id := ids[g.IntN(len(ids))]
			host := m.active[id]
			rc.Scen("op%d: %s.Deactivate(%s)", op, by.id, id)
			var hostNode *node
			for _, nd := range live {
				if nd.addr == host {
					hostNode = nd
				}
			}
			if hostNode != nil && g.Bool(0.3) {
				// the actor is busy when it is deactivated, and the message queued
				// behind the stop request makes it crash while it drains
				rc.Scen("op%d: (%s is busy; a message that makes it panic is queued behind the stop request)", op, id)
				pid := actor.NewPID(host, id)
				hostNode.c.Engine().Send(pid, busyMsg{})
				by.c.Deactivate(pid)
				simrt.WaitQuiet(10 * time.Millisecond)
				hostNode.c.Engine().Send(pid, boomMsg{})
			} else {
				by.c.Deactivate(actor.NewPID(host, id))
			}
			settle()
			delete(m.active, id)
			for _, nd := range live {
				if nd.addr == host {
					if nd.c.Engine().Registry.GetPID(strings.SplitN(id, "/", 2)[0], strings.SplitN(id, "/", 2)[1]) != nil {
						rc.Violate("deactivated-actor-still-running", "%s was deactivated but is still registered on %s", id, nd.id)
					}
					if nd.spawns["stopped:"+id] == 0 {
						rc.Violate("deactivated-actor-not-stopped", "%s was deactivated but never handled Stopped on %s", id, nd.id)
					}
				}
			}
			w.checkViews(rc, m, allKinds, "deactivate")
		case 2: // cluster-aware spawn of an id not yet known
			k := allKinds[g.IntN(len(allKinds))]
			x := actIDs[g.Pick(4, 4, 3, 1, 1, 1)] // ids may contain the separator
			id := k + "/" + x
			if _, ok := m.active[id]; ok {
				continue
			}
			rc.Scen("op%d: %s.Spawn(%s)", op, by.id, id)
			pid := by.c.Spawn(w.kindProducer(by, k), k, actor.WithID(x))
			settle()
			if pidS(pid) != by.addr+"|"+id {
				rc.Violate("cluster-spawn-wrong-pid", "%s.Spawn(%s) returned %s", by.id, id, pidS(pid))
			}
			m.active[id] = by.addr
			w.checkViews(rc, m, allKinds, "cluster-spawn")
		case 3: // join
			if len(w.nodes) >= maxNodes {
				continue
			}
			nd := addNode()
			rc.Scen("op%d: join %s", op, nd.id)
			w.pushMembers()
			settle()
			w.checkViews(rc, m, allKinds, "join")
		case 4: // leave (crash)
			if len(live) < 2 {
				continue
			}
			victim := live[g.IntN(len(live))]
			rc.Scen("op%d: leave %s", op, victim.id)
			w.crash(victim)
			w.pushMembers()
			settle()
			for id, host := range m.active {
				if host == victim.addr {
					delete(m.active, id)
				}
			}
			w.checkViews(rc, m, allKinds, "leave")
		}
	}
	rc.Nontrivial = true
}

// ------------------------------------------------------------------ C20

func runSelfManaged(rc *core.RunCtx) {
	g := simrt.G()
	w := &world{rc: rc}
	rc.PostRun = crashPost(rc, "C20")
	simrt.SetBigInboxCap(1024)
	simnet.Net().MaxLatency = g.Range(0, 2)
	nn := g.Range(2, 4)
	for i := 1; i <= nn; i++ {
		nd := w.startNode(i, fmt.Sprintf("P%d", i), []string{"ka"}, nil, true)
		rc.Scen("node %s addr=%s", nd.id, nd.addr)
		if g.Bool(0.3) {
			simrt.WaitQuiet(time.Duration(g.Range(1, 3)) * time.Second)
		}
	}
	settle := func(d time.Duration) { simrt.WaitQuiet(d) }
	settle(6 * time.Second)
	// expected view per node: set of node ids
	expect := map[string]map[string]bool{}
	for _, nd := range w.nodes {
		expect[nd.id] = map[string]bool{}
		for _, o := range w.nodes {
			expect[nd.id][o.id] = true
		}
	}
	check := func(after string) {
		for _, nd := range w.live() {
			got := idsOf(nd.c.Members())
			var want []string
			for id, ok := range expect[nd.id] {
				if ok {
					want = append(want, id)
				}
			}
			sort.Strings(want)
			if strings.Join(got, ",") != strings.Join(want, ",") {
				rc.Violate("member-list-mismatch/"+after, "after %s: node %s reports members %v to its agent, expected %v", after, nd.id, got, want)
			}
			restarts := 0
			for _, ev := range nd.events {
				if r, ok := ev.ev.(actor.ActorRestartedEvent); ok && strings.HasPrefix(r.PID.ID, "provider/") {
					restarts++
				}
			}
			if restarts > 0 {
				rc.Violate("provider-restarted/"+after, "after %s: the provider of node %s crashed and was restarted %d times", after, nd.id, restarts)
			}
		}
	}
	check("discovery")
	nops := g.Range(1, 5)
	for op := 0; op < nops; op++ {
		live := w.live()
		if len(live) == 0 {
			break
		}
		at := live[g.IntN(len(live))]
		switch g.Pick(3, 3, 2, 2) {
		case 0: // unreachable report for a member (injected on the event stream)
			var cands []*node
			for _, o := range w.nodes {
				if o != at && expect[at.id][o.id] {
					cands = append(cands, o)
				}
			}
			if len(cands) == 0 {
				continue
			}
			x := cands[g.IntN(len(cands))]
			rc.Scen("op%d: node %s is told %s (%s) is unreachable", op, at.id, x.addr, x.id)
			simrt.Fault("unreachable-report-member")
			at.c.Engine().BroadcastEvent(actor.RemoteUnreachableEvent{ListenAddr: x.addr})
			for k := g.Pick(3, 2, 1); k > 0; k-- {
				// the same report arrives again right behind the first one
				// (several stream writers / retries give up at the same time)
				simrt.Fault("unreachable-report-duplicate")
				at.c.Engine().BroadcastEvent(actor.RemoteUnreachableEvent{ListenAddr: x.addr})
			}
			settle(time.Second)
			expect[at.id][x.id] = false
			check("unreachable-member")
		case 1: // unreachable report for an address that is not a member
			addr := "10.77.0.1:9"
			if g.Bool(0.5) {
				// a former member: repeated report
				for _, o := range w.nodes {
					if o != at && !expect[at.id][o.id] {
						addr = o.addr
					}
				}
			}
			rc.Scen("op%d: node %s is told non-member %s is unreachable", op, at.id, addr)
			simrt.Fault("unreachable-report-non-member")
			at.c.Engine().BroadcastEvent(actor.RemoteUnreachableEvent{ListenAddr: addr})
			settle(time.Second)
			check("unreachable-non-member")
		case 2: // a node dies: the others notice by themselves (pings)
			if len(live) < 2 {
				continue
			}
			rc.Scen("op%d: node %s crashes", op, at.id)
			w.crash(at)
			settle(20 * time.Second)
			for _, o := range w.live() {
				expect[o.id][at.id] = false
			}
			check("node-crash")
		case 3: // time passes
			rc.Scen("op%d: 5s pass", op)
			settle(5 * time.Second)
			check("idle")
		}
	}
	rc.Nontrivial = true
}

// late joiner with a large topology (C19): one member holds 3..130 activations
// when a second member joins; the joiner must learn every one of them.
func runLateJoiner(rc *core.RunCtx) {
	g := simrt.G()
	w := &world{rc: rc}
	rc.PostRun = crashPost(rc, "C19")
	simrt.SetBigInboxCap(1024)
	simnet.Net().MaxLatency = g.Range(0, 3)
	a := w.startNode(1, "N1", []string{"ka"}, noProvider, true)
	w.pushMembers()
	simrt.WaitQuiet(5 * time.Second)
	n := []int{3, 63, 64, 65, 70, 130}[g.IntN(6)]
	m := &actModel{active: map[string]string{}}
	for i := 0; i < n; i++ {
		x := fmt.Sprintf("p%d", i)
		a.c.Spawn(w.kindProducer(a, "ka"), "ka", actor.WithID(x))
		m.active["ka/"+x] = a.addr
	}
	simrt.WaitQuiet(5 * time.Second)
	rc.Scen("N1 holds %d activations; then N2 joins", n)
	w.startNode(2, "N2", []string{"ka"}, noProvider, true)
	w.pushMembers()
	simrt.WaitQuiet(5 * time.Second)
	w.checkViews(rc, m, []string{"ka"}, "late-join")
	rc.Nontrivial = true
}

func init() {
	core.Register(&core.Profile{Property: "C19", Name: "late-joiner", Weight: 1, Cfg: cfgCluster, Run: runLateJoiner,
		Doc: "two real nodes; the first holds 3, 63, 64, 65, 70 or 130 activations when the second joins; oracle: the joiner resolves every one of them by id and lists all of them by kind (and so does the first member)"})
	core.Register(&core.Profile{Property: "C19", Name: "activation", Weight: 4, Cfg: cfgCluster, Run: runActivation,
		Doc:    "1-4 real nodes (engine + Remote over the simulated network + Cluster/Agent) with arbitrary kind sets and a harness provider; quiescent histories of activate (deterministic select rules) / deactivate / cluster-spawn / join / leave(crash), notification arrival order varied by per-frame latencies and scheduling; oracle: reference model of the activation map: Activate result and placement, exactly one actor spawned (every node's registry and Producer calls inspected), every member's GetActiveByID/ByKind equals the model after each operation, joiners learn everything, a leave purges exactly the hosted activations, Deactivate removes everywhere and stops the actor",
		Faults: []string{"node-crash"}})
	core.Register(&core.Profile{Property: "C20", Name: "selfmanaged", Weight: 4, Cfg: cfgCluster, Run: runSelfManaged,
		Doc:    "2-4 real nodes running the real SelfManaged provider over the simulated discovery service and network (member pings every 2 simulated seconds); histories of discovery, unreachable reports for members / non-members / repeated, node crashes noticed organically through failed dials; oracle: model of each node's member list as reported to its agent (Members()), no ActorRestartedEvent for a provider",
		Faults: []string{"node-crash", "unreachable-report-member", "unreachable-report-non-member"}})
}
