package remote

import (
	"fmt"
	"strings"
	"time"

	"github.com/anthdm/hollywood/actor"
	hremote "github.com/anthdm/hollywood/remote"

	"storj.io/drpc"

	"verif/harness/core"
	"verif/sim/simdrpc/drpcserver"
	"verif/sim/simdrpc/wire"
	simnet "verif/sim/simnet"
	"verif/sim/simrt"
)

// ------------------------------------------------------------------ C17 fault-free

func runC17FaultFree(rc *core.RunCtx) {
	w := setup(rc)
	g := simrt.G()
	rc.PostRun = func(res *simrt.Result) { livelockClause(rc, res, "C17") }
	nn := g.Range(2, 3)
	targets := []string{"rec/r0", "rec/r1"}
	var nodes []int
	for n := 1; n <= nn; n++ {
		if _, err := w.StartNode(n, targets); err != nil {
			panic(err)
		}
		nodes = append(nodes, n)
	}
	if g.Bool(0.25) {
		// everybody addresses one node by a name that differs from the address
		// its engine was configured with (host name vs IP)
		a := nodes[g.IntN(len(nodes))]
		w.useAlias(a)
		rc.Scen("node%d is addressed as %s", a, w.dest(a))
	}
	maxOps := 8
	if rc.Tier == "thorough" {
		maxOps = 20
	}
	scripts := genOps(g, rc, nodes, targets, 1+g.Pick(2, 4, 3), maxOps, false)
	if w.tls && g.Bool(0.15) {
		// one message larger than drpc's default buffer; the nodes were configured with a larger one
		t := g.IntN(len(scripts))
		i := g.IntN(len(scripts[t]))
		scripts[t][i].kind = 5
		rc.Scen("%s is a 5 MB message (inbound buffers are configured at %d MB)", scripts[t][i].key, bigBuffer>>20)
		simrt.Fault("message-larger-than-default-buffer")
	}
	fin := runScripts(w, scripts)
	// request/response across nodes
	type reqR struct {
		key string
		val any
		err error
		ok  bool
	}
	var reqs []*reqR
	nreq := g.Range(0, 3)
	for i := 0; i < nreq; i++ {
		fi := g.IntN(len(nodes))
		from := nodes[fi]
		to := nodes[(fi+1+g.IntN(len(nodes)-1))%len(nodes)]
		r := &reqR{key: fmt.Sprintf("req%d", i)}
		reqs = append(reqs, r)
		if g.Bool(0.4) {
			// two requests in flight from one task, collected in reverse order
			r2 := &reqR{key: fmt.Sprintf("req%db", i)}
			reqs = append(reqs, r2)
			rc.Scen("node%d: pipelined requests %s, %s to node%d, results collected in reverse order", from, r.key, r2.key, to)
			simrt.GoNode(from, "requester", func() {
				resp1 := w.nodes[from].E.Request(actor.NewPID(w.dest(to), "rec/r0"), &actor.Ping{From: &actor.PID{Address: "payload", ID: r.key}}, 10*time.Second)
				resp2 := w.nodes[from].E.Request(actor.NewPID(w.dest(to), "rec/r0"), &actor.Ping{From: &actor.PID{Address: "payload", ID: r2.key}}, 10*time.Second)
				r2.val, r2.err = resp2.Result()
				r2.ok = true
				r.val, r.err = resp1.Result()
				r.ok = true
				simrt.Ev("requests %s -> %v %v; %s -> %v %v", r.key, r.val, r.err, r2.key, r2.val, r2.err)
			})
			continue
		}
		simrt.GoNode(from, "requester", func() {
			resp := w.nodes[from].E.Request(actor.NewPID(w.dest(to), "rec/r0"), &actor.Ping{From: &actor.PID{Address: "payload", ID: r.key}}, 10*time.Second)
			r.val, r.err = resp.Result()
			r.ok = true
			simrt.Ev("request %s -> %v %v", r.key, r.val, r.err)
		})
	}
	simrt.WaitQuiet(60 * time.Second)
	if *fin != len(scripts) {
		rc.Violate("send-blocked", "%d of %d sender tasks finished; blocked: %v", *fin, len(scripts), simrt.BlockedTasks())
	}
	checkDeliveries(rc, w, flatten(scripts), "C17", false, "fault-free")
	for _, r := range reqs {
		if !r.ok {
			rc.Violate("request-never-returned", "remote request %s: Result() did not return", r.key)
			continue
		}
		if r.err != nil {
			rc.Violate("remote-reply-lost", "remote request %s timed out after 10 simulated seconds without faults: %v", r.key, r.err)
			continue
		}
		p, ok := r.val.(*actor.Pong)
		if !ok || p.From == nil || p.From.ID != r.key {
			rc.Violate("remote-reply-cross-talk", "remote request %s got %v", r.key, r.val)
		}
	}
	for _, nd := range w.nodes {
		if k := nd.count(func(e any) bool { _, ok := e.(actor.RemoteUnreachableEvent); return ok }); k > 0 {
			rc.Violate("spurious-unreachable", "node%d published %d RemoteUnreachableEvents although no fault was injected", nd.N, k)
		}
	}
	rc.Nontrivial = len(flatten(scripts)) > 1
}

// ------------------------------------------------------------------ C17 peer down, then up

func runC17DownUp(rc *core.RunCtx) {
	w := setup(rc)
	g := simrt.G()
	rc.PostRun = func(res *simrt.Result) { crashClause(rc, res, "C17") }
	targets := []string{"rec/r0", "rec/r1"}
	if _, err := w.StartNode(1, nil); err != nil {
		panic(err)
	}
	a := w.nodes[1]
	// phase 1: node 2 is down; sends from 1-2 tasks
	nt := g.Range(1, 2)
	k1 := g.Range(1, 5)
	phase1 := make([][]sendOp, nt)
	id := 0
	for t := range phase1 {
		for i := 0; i < k1; i++ {
			id++
			phase1[t] = append(phase1[t], sendOp{key: fmt.Sprintf("d%d", id), from: 1, to: 2, target: targets[g.IntN(2)], kind: g.IntN(5), task: t, n: i})
		}
	}
	rc.Scen("phase1 (peer down): %d tasks x %d sends", nt, k1)
	fin := runScripts(w, phase1)
	simrt.WaitQuiet(60 * time.Second)
	if *fin != nt {
		rc.Violate("send-blocked", "senders blocked while the peer is down: %v", simrt.BlockedTasks())
	}
	total1 := nt * k1
	nUnreach := a.count(isUnreachable(addrOf(2)))
	nDL := a.count(isStreamDeadLetter(addrOf(2)))
	if nUnreach == 0 {
		rc.Violate("no-unreachable-event", "%d messages were sent to a dead address but no RemoteUnreachableEvent was published", total1)
	}
	if nDL != total1 {
		rc.Violate("dead-letters-vs-messages/peer-down", "%d messages were handed to failed connection attempts, %d DeadLetterEvents for the stream writer surfaced (%d RemoteUnreachableEvents)", total1, nDL, nUnreach)
	}
	if nUnreach > total1 {
		rc.Violate("too-many-unreachable-events", "%d RemoteUnreachableEvents for %d messages", nUnreach, total1)
	}
	// phase 2: the peer comes up; a later send makes a fresh attempt
	if _, err := w.StartNode(2, targets); err != nil {
		panic(err)
	}
	k2 := g.Range(1, 5)
	phase2 := make([][]sendOp, 1)
	for i := 0; i < k2; i++ {
		id++
		phase2[0] = append(phase2[0], sendOp{key: fmt.Sprintf("u%d", id), from: 1, to: 2, target: targets[g.IntN(2)], kind: g.IntN(5), task: 10, n: i, sender: senderPool(1)[g.IntN(3)]})
	}
	rc.Scen("phase2 (peer up): %d sends", k2)
	fin2 := runScripts(w, phase2)
	simrt.WaitQuiet(60 * time.Second)
	if *fin2 != 1 {
		rc.Violate("send-blocked", "sender blocked after the peer came up")
	}
	checkDeliveries(rc, w, flatten(phase2), "C17", false, "after-peer-up")
	// nothing from phase 1 may show up later
	for _, r := range w.nodes[2].Recs {
		for _, g := range r.got {
			if len(g.key) > 0 && g.key[0] == 'd' {
				rc.Violate("dead-lettered-and-delivered", "%s was dead-lettered while the peer was down and delivered later", g.key)
			}
		}
	}
	simrt.Probe("peer-down-then-up")
	rc.Nontrivial = true
}

// ------------------------------------------------------------------ C17 connection loss mid-stream

func runC17Break(rc *core.RunCtx) {
	w := setup(rc)
	g := simrt.G()
	rc.PostRun = func(res *simrt.Result) { crashClause(rc, res, "C17") }
	targets := []string{"rec/r0", "rec/r1"}
	for n := 1; n <= 2; n++ {
		if _, err := w.StartNode(n, targets); err != nil {
			panic(err)
		}
	}
	maxOps := 8
	if rc.Tier == "thorough" {
		maxOps = 16
	}
	// rare-but-legal results in a minority of runs (buggify)
	if g.Bool(0.25) {
		simnet.Net().SetDeadlineErrP = 0.2
	}
	if g.Bool(0.25) {
		simnet.Net().DialRefuseP = 0.3
	}
	if g.Bool(0.25) {
		// node 2 is addressed by a name, the connection knows it by its resolved address
		w.useAlias(2)
	}
	rc.Scen("buggify: setDeadlineErrP=%v dialRefuseP=%v; node 2 addressed as %s", simnet.Net().SetDeadlineErrP, simnet.Net().DialRefuseP, w.dest(2))
	scripts := genOpsFrom(g, rc, 1, []int{2}, targets, g.Range(1, 2), maxOps, false)
	fin := runScripts(w, scripts)
	mode := g.IntN(4)
	// a fault task breaks the connection, partitions, or crashes node 2 at a random moment,
	// or makes node 2 end the stream (not the connection) by sending it a message of a
	// type only the sender knows
	simrt.GoNode(0, "fault", func() {
		for i := simrt.IntN(40); i > 0; i-- {
			simrt.Yield(simrt.OpUser)
		}
		switch mode {
		case 0:
			simnet.Net().BreakConns(1, 2)
		case 1:
			simnet.Net().Partition(1, 2, true)
			simrt.Sleep(time.Duration(1+simrt.IntN(3)) * time.Second)
			simnet.Net().Partition(1, 2, false)
		case 2:
			w.CrashNode(2)
			simrt.Sleep(time.Second)
			if _, err := w.StartNode(2, targets); err != nil {
				panic(err)
			}
		case 3:
			simrt.Fault("peer-ends-stream")
			w.nodes[1].E.Send(actor.NewPID(w.dest(2), "rec/r0"), unknownTypeMsg())
		}
	})
	rc.Scen("fault mode=%s", [...]string{"break", "partition+heal", "crash+restart", "peer-ends-stream"}[mode])
	simrt.WaitQuiet(60 * time.Second)
	if *fin != len(scripts) {
		rc.Violate("send-blocked", "senders blocked: %v", simrt.BlockedTasks())
	}
	checkDeliveries(rc, w, flatten(scripts), "C17", true, "connection-fault")
	// after the fault (faults have stopped) a fresh send must get through
	simnet.Net().SetDeadlineErrP, simnet.Net().DialRefuseP = 0, 0
	late := [][]sendOp{{{key: "late1", from: 1, to: 2, target: "rec/r0", kind: 0, task: 20, n: 0}, {key: "late2", from: 1, to: 2, target: "rec/r0", kind: 1, task: 20, n: 1}}}
	fin2 := runScripts(w, late)
	simrt.WaitQuiet(60 * time.Second)
	if *fin2 != 1 {
		rc.Violate("send-blocked", "sender blocked after the fault healed")
	}
	got := map[string]bool{}
	for _, x := range w.nodes[2].Recs["rec/r0"].got {
		got[x.key] = true
	}
	if !got["late2"] {
		// the first late send may still be handed to a connection that is being torn down;
		// the one after a quiescent point must arrive
		more := [][]sendOp{{{key: "late3", from: 1, to: 2, target: "rec/r0", kind: 0, task: 21, n: 0}}}
		runScripts(w, more)
		simrt.WaitQuiet(60 * time.Second)
		ok := false
		for _, x := range w.nodes[2].Recs["rec/r0"].got {
			if x.key == "late3" {
				ok = true
			}
		}
		if !ok {
			rc.Violate("no-fresh-attempt-after-fault", "after the connection fault healed and the system was quiet, two successive sends never reached the peer (mode %d)", mode)
		}
	}
	rc.Nontrivial = true
}

// ------------------------------------------------------------------ C17 start / stop

func runC17StartStop(rc *core.RunCtx) {
	w := setup(rc)
	g := simrt.G()
	rc.PostRun = func(res *simrt.Result) { crashClause(rc, res, "C17") }
	targets := []string{"rec/r0"}
	for n := 1; n <= 2; n++ {
		if _, err := w.StartNode(n, targets); err != nil {
			panic(err)
		}
	}
	b := w.nodes[2]
	// some traffic first
	pre := [][]sendOp{{{key: "pre1", from: 1, to: 2, target: "rec/r0", kind: 0, task: 0, n: 0}}}
	runScripts(w, pre)
	simrt.WaitQuiet(30 * time.Second)
	// Start twice: must report an error, not panic
	old := simrt.SetNode(2)
	if err := b.R.Start(b.E); err == nil {
		rc.Violate("second-start-accepted", "Remote.Start on a running remote returned nil")
	}
	simrt.SetNode(old)
	// Stop, possibly from two tasks at once
	nstop := g.Range(1, 2)
	done := 0
	for i := 0; i < nstop; i++ {
		simrt.GoNode(2, "stopper", func() {
			wg := b.R.Stop()
			if wg == nil {
				rc.Violate("stop-returned-nil", "Remote.Stop returned a nil WaitGroup")
			} else {
				wg.Wait()
			}
			done++
		})
	}
	simrt.WaitQuiet(30 * time.Second)
	if done != nstop {
		rc.Violate("stop-blocked/"+fmt.Sprintf("callers=%d", nstop), "%d of %d Stop().Wait() callers returned; blocked: %v", done, nstop, simrt.BlockedTasks())
	} else {
		// no inbound connections any more
		if c, err := simnet.DialSim(b.Addr); err == nil {
			c.Close()
			rc.Violate("accepts-after-stop", "a connection to %s was accepted after Remote.Stop().Wait() returned", b.Addr)
		}
		// Stop again is harmless
		wg := b.R.Stop()
		if wg == nil {
			rc.Violate("stop-returned-nil", "second Remote.Stop returned a nil WaitGroup")
		} else {
			wg.Wait()
		}
		// Start on the stopped remote must not bring the listener back
		old := simrt.SetNode(2)
		err := b.R.Start(b.E)
		simrt.SetNode(old)
		simrt.WaitQuiet(10 * time.Second)
		if c, derr := simnet.DialSim(b.Addr); derr == nil {
			c.Close()
			rc.Violate("accepts-after-stop/start-after-stop", "after Stop().Wait(), a second Start (returned %v) made the node accept inbound connections again", err)
		}
	}
	rc.Scen("stop callers=%d", nstop)
	rc.Nontrivial = true
}

// ------------------------------------------------------------------ C16 hostile envelopes

type hostileMsg struct {
	key                  string
	typeIdx, tgtIdx, sndIdx int32
	valid                bool
	target               string
}

func runHostile(rc *core.RunCtx) {
	w := setup(rc)
	g := simrt.G()
	targets := []string{"rec/r0", "rec/r1"}
	for n := 1; n <= 2; n++ {
		if _, err := w.StartNode(n, targets); err != nil {
			panic(err)
		}
	}
	rc.PostRun = func(res *simrt.Result) {
		if res.Crash != nil && !res.Crash.Harness {
			site := res.Crash.Origin
			rc.Violate("node-crash-on-input/"+lastSeg(site), "node %d: un-recovered panic in task %q: %s (raised in %s)", res.Crash.Node, res.Crash.Task, core.FirstLine(res.Crash.Value), res.Crash.Origin)
		}
		if res.EndReason == "steps" {
			rc.Block("step budget exhausted")
		}
	}
	// legitimate traffic 1 -> 2 before, during and after
	// node 2 talks to node 1 once, so that it owns a stream writer (an internal
	// actor a hostile peer can name as target)
	w.doSend(sendOp{key: "warm", from: 2, to: 1, target: "rec/r0", kind: 0})
	simrt.WaitQuiet(10 * time.Second)
	legit := genOpsFrom(g, rc, 1, []int{2}, targets, 1, 6, false)
	fin := runScripts(w, legit)

	// table entries marked by the hostile generator arrive as nil pointers: an
	// Envelope *value* the wire decoder never produces, which the reader must
	// survive all the same
	drpcserver.SetDecodeHook(func(m drpc.Message) {
		env, ok := m.(*hremote.Envelope)
		if !ok {
			return
		}
		for i, p := range env.Targets {
			if p != nil && p.Address == nilMarker {
				env.Targets[i] = nil
				simrt.Fault("nil-table-entry")
			}
		}
		for i, p := range env.Senders {
			if p != nil && p.Address == nilMarker {
				env.Senders[i] = nil
				simrt.Fault("nil-table-entry")
			}
		}
	})
	// in some runs node 2 is also busy dialing an address where nobody listens
	// (retries and back-off for seconds): a stream writer that exists, is
	// registered and can be named by the hostile peer, but has no stream yet
	dialing := g.Bool(0.3)
	if dialing {
		simrt.GoNode(2, "send-to-dead-address", func() {
			w.nodes[2].E.Send(actor.NewPID(addrOf(3), "rec/r0"), mkPayload(0, "nobody-home"))
		})
	}
	infra := []string{"stream/" + addrOf(1), "eventstream/1", "monitor/m"}
	if dialing {
		infra = append(infra, "stream/"+addrOf(3), "stream/"+addrOf(3))
	}
	// in some runs node 2 asks a service on the hostile peer's own address; the
	// peer learns the temporary response PID from the request's sender table and
	// floods it with replies over several connections, before, while and after
	// the requester collects the result
	if g.Bool(0.3) {
		floodReplies(w, g.Range(2, 5), g.Range(1, 3), time.Duration(g.IntN(3))*5*time.Millisecond)
	}
	mode := g.IntN(3) // 0 structural, 1 byte mutation, 2 corrupting network on a legitimate stream
	var sent []hostileMsg
	bad := map[string]int32{"neg": -1, "len": 0, "max": 1<<31 - 1}
	_ = bad
	nenv := g.Range(1, 4)
	hostileDone := false
	if mode == 2 {
		flips := 0
		simnet.Net().Corrupt = func(b []byte) []byte {
			if len(b) > 2 && b[0] == wire.KMessage && simrt.Chance(0.3) {
				flips++
				simrt.Fault("frame-corruption")
				k := 1 + simrt.IntN(len(b)-1)
				b[k] ^= byte(1 << uint(simrt.IntN(8)))
				if simrt.Chance(0.3) {
					b = b[:1+simrt.IntN(len(b)-1)]
				}
			}
			return b
		}
		hostileDone = true
	} else {
		simrt.GoNode(9, "hostile", func() {
			defer func() { hostileDone = true }()
			c, err := simnet.DialSim(addrOf(2))
			if err != nil {
				return
			}
			c.SendFrame(wire.Frame(wire.KInvoke, []byte("/remote.Remote/Receive")))
			hid := 0
			for e := 0; e < nenv; e++ {
				env := &hremote.Envelope{}
				ntypes := simrt.G().Range(0, 3)
				names := []string{"remote.TestMessage", "actor.PID", "no.such.Type", "evil/remote.TestMessage", "//actor.PID", "remote.TestMessage/", ""}
				for i := 0; i < ntypes; i++ {
					env.TypeNames = append(env.TypeNames, names[simrt.G().IntN(len(names))])
				}
				ntg := simrt.G().Range(0, 3)
				for i := 0; i < ntg; i++ {
					tid := targets[i%2]
					if simrt.G().Bool(0.15) || (dialing && simrt.G().Bool(0.3)) {
						// address one of the node's own infrastructure actors
						tid = infra[simrt.G().IntN(len(infra))]
					}
					if mode == 0 && simrt.G().Bool(0.08) {
						// becomes a nil table entry on the receiving side (decode hook)
						env.Targets = append(env.Targets, actor.NewPID(nilMarker, ""))
						continue
					}
					env.Targets = append(env.Targets, actor.NewPID(addrOf(2), tid))
				}
				nsn := simrt.G().Range(0, 3) // 3: decoded tables whose capacity exceeds their length
				for i := 0; i < nsn; i++ {
					if mode == 0 && simrt.G().Bool(0.08) {
						env.Senders = append(env.Senders, actor.NewPID(nilMarker, ""))
						continue
					}
					env.Senders = append(env.Senders, actor.NewPID("evil", fmt.Sprintf("s%d", i)))
				}
				nm := simrt.G().Range(1, 3)
				for i := 0; i < nm; i++ {
					hid++
					hm := hostileMsg{key: fmt.Sprintf("h%d", hid)}
					pick := func(n int) int32 {
						switch simrt.G().Pick(5, 1, 1, 1) {
						case 1:
							return -1
						case 2:
							return int32(n)
						case 3:
							return 1<<31 - 1
						}
						if n == 0 {
							return 0
						}
						return int32(simrt.G().IntN(n))
					}
					hm.typeIdx, hm.tgtIdx, hm.sndIdx = pick(len(env.TypeNames)), pick(len(env.Targets)), pick(len(env.Senders))
					var data []byte
					if hm.typeIdx >= 0 && int(hm.typeIdx) < len(env.TypeNames) && strings.HasSuffix(env.TypeNames[hm.typeIdx], "actor.PID") {
						data, _ = (&actor.PID{Address: "payload", ID: hm.key}).MarshalVT()
					} else {
						data, _ = (&hremote.TestMessage{Data: []byte(hm.key)}).MarshalVT()
					}
					undecodable := simrt.G().Bool(0.15)
					if undecodable {
						data = []byte{0xff, 0xff, 0xff, 0x01}
					}
					hm.valid = hm.typeIdx >= 0 && int(hm.typeIdx) < len(env.TypeNames) && (env.TypeNames[hm.typeIdx] == "remote.TestMessage" || env.TypeNames[hm.typeIdx] == "actor.PID") &&
						hm.tgtIdx >= 0 && int(hm.tgtIdx) < len(env.Targets) && !undecodable &&
						(len(env.Senders) == 0 || (hm.sndIdx >= 0 && int(hm.sndIdx) < len(env.Senders)))
					if hm.tgtIdx >= 0 && int(hm.tgtIdx) < len(env.Targets) {
						hm.target = env.Targets[hm.tgtIdx].ID
						if env.Targets[hm.tgtIdx].Address == nilMarker {
							hm.valid = false // a nil target: nobody is addressed
						}
					}
					env.Messages = append(env.Messages, &hremote.Message{Data: data, TypeNameIndex: hm.typeIdx, TargetIndex: hm.tgtIdx, SenderIndex: hm.sndIdx})
					sent = append(sent, hm)
					if !hm.valid {
						simrt.Fault("hostile-invalid-message")
					}
				}
				raw, err := env.MarshalVT()
				if err != nil {
					continue
				}
				if mode == 1 && len(raw) > 0 {
					simrt.Fault("hostile-byte-mutation")
					for k := simrt.G().Range(1, 3); k > 0; k-- {
						raw[simrt.G().IntN(len(raw))] ^= byte(1 << uint(simrt.G().IntN(8)))
					}
					if simrt.G().Bool(0.3) {
						raw = raw[:simrt.G().IntN(len(raw))]
					}
				}
				simrt.Ev("hostile envelope %d: types=%v targets=%d senders=%d msgs=%d", e, env.TypeNames, len(env.Targets), len(env.Senders), len(env.Messages))
				if err := c.SendFrame(wire.Frame(wire.KMessage, raw)); err != nil {
					return
				}
			}
		})
	}
	simrt.WaitQuiet(60 * time.Second)
	_ = hostileDone
	if *fin != len(legit) {
		rc.Violate("legit-sender-blocked", "legitimate sender blocked: %v", simrt.BlockedTasks())
	}
	// what node 2 delivered
	valid := map[string]hostileMsg{}
	for _, h := range sent {
		if h.valid {
			valid[h.key] = h
		}
	}
	legitKeys := map[string]sendOp{}
	for _, s := range flatten(legit) {
		legitKeys[s.key] = s
	}
	for id, r := range w.nodes[2].Recs {
		for _, x := range r.got {
			if _, ok := legitKeys[x.key]; ok {
				continue
			}
			if mode != 0 {
				continue // mutated bytes may decode to anything; only "no crash" and the legit stream are asserted
			}
			h, ok := valid[x.key]
			if !ok {
				rc.Violate("invalid-message-delivered", "node2 %s got %s(%q) although that message had an out-of-range index, unknown type or undecodable payload", id, x.typ, x.key)
				continue
			}
			if h.target != id {
				rc.Violate("delivered-to-unaddressed-actor", "hostile message %s addressed to %s was delivered to %s", h.key, h.target, id)
			}
		}
	}
	// the legitimate stream is unaffected (mode 2 corrupts it on purpose: lossy)
	if mode != 2 {
		checkDeliveries(rc, w, flatten(legit), "C16", false, "beside-hostile-stream")
	}
	// the node's own infrastructure survived too: its event stream still serves
	// its subscribers (an event-stream actor that crashed on a hostile dead
	// letter restarts without them)
	w.nodes[2].E.Send(actor.NewPID(addrOf(2), "ghost/evprobe"), mkPayload(0, "evprobe"))
	simrt.WaitQuiet(10 * time.Second)
	if w.nodes[2].count(func(e any) bool {
		d, ok := e.(actor.DeadLetterEvent)
		return ok && d.Target != nil && d.Target.ID == "ghost/evprobe"
	}) != 1 {
		rc.Violate("event-stream-lost-its-subscribers", "after the hostile input node 2's event stream no longer delivers events to its subscriber (a dead letter produced on the node itself was not seen)")
	}
	// a new legitimate connection still works afterwards
	simnet.Net().Corrupt = nil
	if mode == 2 {
		// corrupted frames end the stream; the writer is torn down with the connection
		simnet.Net().BreakConns(1, 2)
		simrt.WaitQuiet(60 * time.Second)
	}
	after := [][]sendOp{{{key: "after1", from: 1, to: 2, target: "rec/r0", kind: 0, task: 30, n: 0}}}
	if mode != 2 {
		runScripts(w, after)
		simrt.WaitQuiet(60 * time.Second)
		ok := false
		for _, x := range w.nodes[2].Recs["rec/r0"].got {
			if x.key == "after1" {
				ok = true
			}
		}
		if !ok {
			rc.Violate("node-deaf-after-bad-input", "after the hostile stream a legitimate message no longer reached node 2")
		}
	}
	rc.Scen("mode=%s envelopes=%d hostile messages=%d", [...]string{"structural", "byte-mutation", "corrupting-network"}[mode], nenv, len(sent))
	rc.Nontrivial = len(sent) > 0 || mode == 2
}

// nilMarker in the Address of a table entry makes the decode hook replace the
// entry by nil on the receiving side.
const nilMarker = "\x00nil"

// floodReplies starts a hostile server at node 9's address and a requester on
// node 2 that asks it something. The server reads the response PID out of the
// request's sender table and sends nreplies replies to it over nconns fresh
// connections to node 2.
func floodReplies(w *World, nreplies, nconns int, stall time.Duration) {
	var learned *actor.PID
	w.rc.Scen("reply flood: %d replies over %d connections, requester stalls %v before Result()", nreplies, nconns, stall)
	simrt.GoNode(9, "hostile-server", func() {
		l, err := simnet.Listen("tcp", addrOf(9))
		if err != nil {
			return
		}
		c, err := l.Accept()
		if err != nil {
			return
		}
		sc := c.(*simnet.SimConn)
		for learned == nil {
			f, err := sc.RecvFrame()
			if err != nil {
				return
			}
			if len(f) < 2 || f[0] != wire.KMessage {
				continue
			}
			env := &hremote.Envelope{}
			if env.UnmarshalVT(f[1:]) != nil {
				continue
			}
			for _, m := range env.Messages {
				if m.SenderIndex >= 0 && int(m.SenderIndex) < len(env.Senders) && strings.HasPrefix(env.Senders[m.SenderIndex].ID, "response/") {
					learned = env.Senders[m.SenderIndex]
				}
			}
		}
		simrt.Fault("reply-flood")
		var conns []*simnet.SimConn
		for i := 0; i < nconns; i++ {
			hc, err := simnet.DialSim(addrOf(2))
			if err != nil {
				return
			}
			hc.SendFrame(wire.Frame(wire.KInvoke, []byte("/remote.Remote/Receive")))
			conns = append(conns, hc)
		}
		for i := 0; i < nreplies; i++ {
			data, _ := (&hremote.TestMessage{Data: []byte(fmt.Sprintf("flood%d", i))}).MarshalVT()
			env := &hremote.Envelope{TypeNames: []string{"remote.TestMessage"}, Targets: []*actor.PID{learned}, Messages: []*hremote.Message{{Data: data}}}
			raw, _ := env.MarshalVT()
			if conns[i%nconns].SendFrame(wire.Frame(wire.KMessage, raw)) != nil {
				return
			}
			simrt.Yield(simrt.OpUser)
		}
	})
	simrt.GoNode(2, "asker", func() {
		resp := w.nodes[2].E.Request(actor.NewPID(addrOf(9), "svc/x"), mkPayload(0, "ask"), 50*time.Millisecond)
		if stall > 0 {
			simrt.Sleep(stall)
		}
		v, err := resp.Result()
		simrt.Ev("asker: %v %v", v, err)
	})
}

func lastSeg(s string) string {
	for i := len(s) - 1; i >= 0; i-- {
		if s[i] == '/' {
			return s[i+1:]
		}
	}
	return s
}

func init() {
	base := "2-3 real engines with real Remotes over the simulated network (latency per frame, FIFO per connection) and the dRPC stub (real encoding, real drpcmux); "
	core.Register(&core.Profile{Property: "C17", Name: "fault-free", Weight: 3, Cfg: cfgRemote, Run: runC17FaultFree,
		Doc: base + "1-3 concurrent sender tasks between all node pairs, 0-3 cross-node requests; oracle: exactly-once, per-task order, sender-faithful delivery, replies reach the requester, no RemoteUnreachableEvent"})
	core.Register(&core.Profile{Property: "C17", Name: "peer-down-up", Weight: 2, Cfg: cfgRemote, Run: runC17DownUp,
		Doc:    base + "the peer is not listening at first: dial retries and back-off on the simulated clock; oracle: RemoteUnreachableEvent published, one stream dead letter per message handed to the failed attempts, nothing delivered twice or later; after the peer starts a later send is delivered",
		Faults: []string{"dial-no-listener", "peer-down-then-up"}})
	core.Register(&core.Profile{Property: "C17", Name: "connection-fault", Weight: 2, Cfg: cfgRemote, Run: runC17Break,
		Doc:    base + "connection break / partition+heal / crash+restart of the peer at a random point mid-stream; oracle (relaxed narrowly): messages in flight may be lost but nothing is duplicated, reordered, mis-addressed or altered; once quiet, a fresh send gets through",
		Faults: []string{"connection-break", "partition", "heal", "node-crash"}})
	core.Register(&core.Profile{Property: "C17", Name: "start-stop", Weight: 1, Cfg: cfgRemote, Run: runC17StartStop,
		Doc: base + "Start twice, Stop from 1-2 tasks, Stop again; oracle: second Start errors, every Stop().Wait() returns, no inbound connection is accepted afterwards"})
	core.Register(&core.Profile{Property: "C16", Name: "hostile", Weight: 4, Cfg: cfgRemote, Run: runHostile,
		Doc:    base + "a hostile peer opens the real RPC and sends envelopes with indices in {-1, len, MaxInt32, valid}, empty tables, unknown type names, undecodable payloads (structural), bit-flipped/truncated envelopes (byte mutation), or the network corrupts frames of a legitimate stream; a legitimate stream runs alongside; oracle: no un-recovered panic or exit on the receiving node, a hostile message is delivered only if all its indices are valid and then only to the target they name, the legitimate stream still delivers everything in order, a later legitimate send still arrives",
		Faults: []string{"hostile-invalid-message", "hostile-byte-mutation", "frame-corruption"}})
}
