// Package remote is the F-remote scenario family: 2-3 real engines with real
// Remotes over the simulated network and the dRPC stub, optional hostile
// peer. Properties C15, C16, C17.
package remote

import (
	"crypto/tls"
	"fmt"
	"os"
	"strconv"
	"strings"
	"time"

	"github.com/anthdm/hollywood/actor"
	"github.com/anthdm/hollywood/cluster"
	hremote "github.com/anthdm/hollywood/remote"
	"google.golang.org/protobuf/proto"
	"google.golang.org/protobuf/reflect/protodesc"
	"google.golang.org/protobuf/reflect/protoreflect"
	"google.golang.org/protobuf/types/descriptorpb"
	"google.golang.org/protobuf/types/dynamicpb"

	"verif/harness/core"
	simnet "verif/sim/simnet"
	"verif/sim/simrt"
)

type rec struct {
	key    string // payload identity
	sender string
	seq    int
	typ    string
}

type recorder struct {
	id  string
	got []rec
}

type nodeEv struct {
	seq int
	ev  any
}

type Node struct {
	N      int
	Addr   string
	E      *actor.Engine
	R      *hremote.Remote
	Recs   map[string]*recorder
	Events []nodeEv
	up     bool
}

type World struct {
	rc    *core.RunCtx
	seq   int
	nodes map[int]*Node
	alias map[int]bool // senders address this node by another spelling of its address
	tls   bool         // remotes are configured WithTLS (handshake not simulated; the dial path differs)
}

func (w *World) tick() int { w.seq++; return w.seq }

// dest is the address senders put into PIDs for node n.
func (w *World) dest(n int) string {
	if w.alias[n] {
		return fmt.Sprintf("node%d.sim:4000", n)
	}
	return addrOf(n)
}

// useAlias makes every sender address node n by a name that reaches the same
// listener but differs textually from the engine's own address.
func (w *World) useAlias(n int) {
	if w.alias == nil {
		w.alias = map[int]bool{}
	}
	w.alias[n] = true
	if simnet.Net().Aliases == nil {
		simnet.Net().Aliases = map[string]string{}
	}
	simnet.Net().Aliases[w.dest(n)] = addrOf(n)
	simrt.Fault("address-alias")
}

func addrOf(n int) string { return fmt.Sprintf("10.0.0.%d:4000", n) }

// payloadKey extracts the identity the harness put into a payload.
func payloadKey(m any) (string, string) {
	switch v := m.(type) {
	case *hremote.TestMessage:
		if len(v.Data) > 1<<20 {
			// a big message: the key is what precedes the first '|'
			if i := strings.IndexByte(string(v.Data[:64]), '|'); i >= 0 {
				return string(v.Data[:i]), "remote.TestMessage"
			}
		}
		return string(v.Data), "remote.TestMessage"
	case *actor.PID:
		return v.ID, "actor.PID"
	case *actor.Ping:
		if v.From != nil {
			return v.From.ID, "actor.Ping"
		}
		return "", "actor.Ping"
	case *cluster.Deactivation:
		if v.PID != nil {
			return v.PID.ID, "cluster.Deactivation"
		}
		return "", "cluster.Deactivation"
	case *cluster.ActivationRequest:
		return v.ID, "cluster.ActivationRequest"
	}
	return fmt.Sprintf("?%T", m), fmt.Sprintf("%T", m)
}

// bigBuffer is the inbound buffer size of TLS-configured nodes; a message of
// kind 5 is larger than drpc's 4 MB default and fits into it.
const bigBuffer = 8 << 20

func mkPayload(kind int, key string) proto.Message {
	switch kind {
	case 5:
		b := make([]byte, 5<<20)
		copy(b, key+"|")
		return &hremote.TestMessage{Data: b}
	case 1:
		return &actor.PID{Address: "payload", ID: key}
	case 2:
		return &actor.Ping{From: &actor.PID{Address: "payload", ID: key}}
	case 3:
		return &cluster.Deactivation{PID: &actor.PID{Address: "payload", ID: key}}
	case 4:
		return &cluster.ActivationRequest{Kind: "k", ID: key}
	}
	return &hremote.TestMessage{Data: []byte(key)}
}

func pidStr(p *actor.PID) string {
	if p == nil {
		return "nil"
	}
	return p.Address + "|" + p.ID
}

// StartNode creates engine+remote n; everything it spawns is labelled node n.
func (w *World) StartNode(n int, recorders []string) (*Node, error) {
	old := simrt.SetNode(n)
	defer simrt.SetNode(old)
	simrt.NodeUp(n)
	nd := &Node{N: n, Addr: addrOf(n), Recs: map[string]*recorder{}, up: true}
	cfg := hremote.NewConfig()
	if w.tls {
		// options are applied in this order on purpose: each must keep what the
		// one before it set
		cfg = cfg.WithBufferSize(bigBuffer).WithTLS(&tls.Config{InsecureSkipVerify: true})
	}
	nd.R = hremote.New(nd.Addr, cfg)
	e, err := actor.NewEngine(actor.NewEngineConfig().WithRemote(nd.R))
	if err != nil {
		return nil, err
	}
	nd.E = e
	for _, id := range recorders {
		r := &recorder{id: id}
		nd.Recs[id] = r
		e.SpawnFunc(func(c *actor.Context) {
			switch c.Message().(type) {
			case actor.Initialized, actor.Started, actor.Stopped:
				return
			}
			k, t := payloadKey(c.Message())
			r.got = append(r.got, rec{key: k, sender: pidStr(c.Sender()), seq: w.tick(), typ: t})
			simrt.Ev("node%d %s got %s(%s) from %s", n, id, t, k, pidStr(c.Sender()))
			// request/response: reply to pings that carry a sender
			if p, ok := c.Message().(*actor.Ping); ok && c.Sender() != nil && strings.HasPrefix(k, "req") {
				c.Respond(&actor.Pong{From: &actor.PID{Address: "reply", ID: p.From.ID}})
			}
		}, kindOf(id), actor.WithID(idOf(id)))
	}
	mon := e.SpawnFunc(func(c *actor.Context) {
		switch c.Message().(type) {
		case actor.Initialized, actor.Started, actor.Stopped:
			return
		}
		nd.Events = append(nd.Events, nodeEv{w.tick(), c.Message()})
		simrt.Ev("node%d event %T", n, c.Message())
	}, "monitor", actor.WithID("m"))
	e.Subscribe(mon)
	w.nodes[n] = nd
	return nd, nil
}

func kindOf(full string) string {
	i := strings.LastIndex(full, "/")
	return full[:i]
}
func idOf(full string) string {
	i := strings.LastIndex(full, "/")
	return full[i+1:]
}

// CrashNode kills every task of the node and cuts its network.
func (w *World) CrashNode(n int) {
	simrt.Fault("node-crash")
	simnet.Net().BreakNode(n)
	simrt.KillNode(n)
	if nd := w.nodes[n]; nd != nil {
		nd.up = false
	}
}

func (nd *Node) count(pred func(any) bool) int {
	k := 0
	for _, e := range nd.Events {
		if pred(e.ev) {
			k++
		}
	}
	return k
}

func isUnreachable(addr string) func(any) bool {
	return func(e any) bool {
		u, ok := e.(actor.RemoteUnreachableEvent)
		return ok && u.ListenAddr == addr
	}
}

func isStreamDeadLetter(addr string) func(any) bool {
	return func(e any) bool {
		d, ok := e.(actor.DeadLetterEvent)
		return ok && d.Target != nil && d.Target.ID == "stream/"+addr
	}
}

type sendOp struct {
	key     string
	from    int // node
	to      int // node
	target  string
	kind    int // payload kind; -1 non-proto value, -2 proto that fails to marshal
	sender  *actor.PID
	task    int
	n       int // per (task,target) sequence
	request bool
}

func (s sendOp) String() string {
	return fmt.Sprintf("%s:n%d->n%d/%s kind=%d from=%s", s.key, s.from, s.to, s.target, s.kind, pidStr(s.sender))
}

type badValue struct{ X int }

// unknownTypeMsg is a well-formed protobuf message of a type that is not in
// the global type registry (nodes built from different binaries): the sender
// serializes it, the receiving node's reader cannot find the type and ends
// the stream with an error while the connection stays open.
func unknownTypeMsg() proto.Message {
	fdp := &descriptorpb.FileDescriptorProto{
		Name: proto.String("verif_unknown.proto"), Package: proto.String("verifx"), Syntax: proto.String("proto3"),
		MessageType: []*descriptorpb.DescriptorProto{{Name: proto.String("OnlyTheSenderKnows"),
			Field: []*descriptorpb.FieldDescriptorProto{{Name: proto.String("s"), Number: proto.Int32(1), JsonName: proto.String("s"),
				Type: descriptorpb.FieldDescriptorProto_TYPE_STRING.Enum(), Label: descriptorpb.FieldDescriptorProto_LABEL_OPTIONAL.Enum()}}}},
	}
	fd, err := protodesc.NewFile(fdp, nil)
	if err != nil {
		panic(err)
	}
	m := dynamicpb.NewMessage(fd.Messages().Get(0))
	m.Set(fd.Messages().Get(0).Fields().Get(0), protoreflect.ValueOfString("x"))
	return m
}

func (w *World) doSend(s sendOp) {
	nd := w.nodes[s.from]
	pid := actor.NewPID(w.dest(s.to), s.target)
	var payload any
	switch s.kind {
	case -1:
		payload = badValue{7}
		simrt.Fault("unserialisable-payload-non-proto")
	case -2:
		payload = &actor.PID{Address: "payload", ID: "bad\xff" + s.key}
		simrt.Fault("unserialisable-payload-invalid-utf8")
	case -3:
		payload = nil // an untyped nil message value
		simrt.Fault("unserialisable-payload-nil")
	default:
		payload = mkPayload(s.kind, s.key)
	}
	simrt.Ev("send %s", s)
	if s.sender != nil {
		nd.E.SendWithSender(pid, payload, s.sender)
	} else {
		nd.E.Send(pid, payload)
	}
}

func crashClause(rc *core.RunCtx, res *simrt.Result, props ...string) {
	if res.Crash != nil && !res.Crash.Harness {
		site := res.Crash.Origin
		if i := strings.LastIndex(site, "/"); i >= 0 {
			site = site[i+1:]
		}
		hit := false
		for _, p := range props {
			if p == rc.Property {
				rc.Violate("process-crash/"+site, "node %d: un-recovered panic in task %q: %s (raised in %s)", res.Crash.Node, res.Crash.Task, core.FirstLine(res.Crash.Value), res.Crash.Origin)
				hit = true
			}
		}
		if !hit {
			rc.Block("process crashed: %s", core.FirstLine(res.Crash.Value))
		}
	}
	if res.EndReason == "steps" {
		rc.Block("step budget exhausted")
	}
}

// livelockClause is crashClause for fault-free scenarios with a finite
// workload: there the system must come to rest. Those runs take a few hundred
// to a few thousand scheduling steps; still being busy after the whole budget
// (hundreds of times that; margin measured with VERIF_STEPS_DIV) means work is
// circulating without end - e.g. a message passed from connection to
// connection and never delivered.
func livelockClause(rc *core.RunCtx, res *simrt.Result, props ...string) {
	if res.EndReason == "steps" && (res.Crash == nil || res.Crash.Harness) {
		rc.Violate("never-quiescent", "finite fault-free workload, but the system was still busy after %d scheduling steps and %v of simulated time", res.Steps, time.Duration(res.SimNanos))
		return
	}
	crashClause(rc, res, props...)
}

// senderPool: nil, equal PIDs in distinct objects, pairs that differ only in
// how address and id split, remote and local addresses.
func senderPool(from int) []*actor.PID {
	return []*actor.PID{
		nil,
		actor.NewPID(addrOf(from), "snd/a"),
		actor.NewPID(addrOf(from), "snd/a"), // equal, distinct object
		actor.NewPID("ab", "c"),
		actor.NewPID("a", "bc"),
		actor.NewPID(addrOf(from), "snd/b"),
		actor.NewPID("10.0.0.77:4000", "snd/a"), // same id as above on another node
		actor.NewPID("local", "x/1"),
		actor.NewPID(addrOf(from), "snd/"+strings.Repeat("deep/", 30)+"a"),
		actor.NewPID(addrOf(from), "snd/"+strings.Repeat("deep/", 30)+"b"),
		// the same characters, split between address and id at different separators
		actor.NewPID("node-a", "svc/worker/1"),
		actor.NewPID("node-a/svc", "worker/1"),
	}
}

// checkDeliveries compares what the recorders of node `to` got with what was
// sent; lossy=true relaxes "every message arrives" (connection faults) but
// never duplicates, order, target, payload or sender.
func checkDeliveries(rc *core.RunCtx, w *World, ops []sendOp, prop string, lossy bool, feat string) {
	type tk struct {
		to     int
		target string
	}
	byTarget := map[tk][]sendOp{}
	var order []tk
	for _, s := range ops {
		if s.kind < 0 || s.request {
			continue
		}
		k := tk{s.to, s.target}
		if _, ok := byTarget[k]; !ok {
			order = append(order, k)
		}
		byTarget[k] = append(byTarget[k], s)
	}
	allKeys := map[string]sendOp{}
	for _, s := range ops {
		allKeys[s.key] = s
	}
	for n, nd := range w.nodes {
		for id, r := range nd.Recs {
			seen := map[string]int{}
			lastN := map[int]int{}
			for _, g := range r.got {
				if strings.HasPrefix(g.key, "req") {
					continue
				}
				s, ok := allKeys[g.key]
				if !ok {
					if feat == "beside-hostile-stream" {
						continue // hostile traffic is judged by the hostile oracle
					}
					rc.Violate2(prop, "delivered-never-sent/"+feat, "node%d %s got %s(%q) which was never sent", n, id, g.typ, g.key)
					continue
				}
				seen[g.key]++
				if seen[g.key] > 1 {
					rc.Violate2(prop, "duplicate-delivery/"+feat, "node%d %s got %s twice", n, id, s)
				}
				if s.to != n || s.target != id {
					rc.Violate2(prop, "wrong-target/"+feat, "%s was delivered to node%d %s", s, n, id)
				}
				if s.kind < 0 {
					rc.Violate2(prop, "unserialisable-delivered/"+feat, "%s was delivered as %s", s, g.typ)
				}
				if want := pidStr(s.sender); g.sender != want {
					sf := "some-sender"
					if s.sender == nil {
						sf = "nil-sender"
					}
					rc.Violate2(prop, "wrong-sender/"+sf, "%s was delivered with sender %s", s, g.sender)
				}
				if _, typ := payloadKey(mkPayload(s.kind, s.key)); s.kind >= 0 && typ != g.typ {
					rc.Violate2(prop, "wrong-type/"+feat, "%s was delivered as %s", s, g.typ)
				}
				// order is promised while the connection stays up; across a lost
				// connection the old connection's reader may still be delivering
				// what it had received while a new connection overtakes it
				if p, ok := lastN[s.task]; ok && s.n < p && s.to == n && s.target == id && !lossy {
					rc.Violate2(prop, "order/"+feat, "%s delivered after a later message of the same task to the same target", s)
				}
				lastN[s.task] = s.n
			}
		}
	}
	if !lossy {
		for _, k := range order {
			nd := w.nodes[k.to]
			if nd == nil || nd.Recs[k.target] == nil {
				continue
			}
			got := map[string]bool{}
			for _, g := range nd.Recs[k.target].got {
				got[g.key] = true
			}
			for _, s := range byTarget[k] {
				if !got[s.key] {
					rc.Violate2(prop, "lost-message/"+feat, "%s never arrived", s)
				}
			}
		}
	}
}

func cfgRemote(cfg *simrt.Config, tier string) {
	cfg.MaxSteps = 600_000
	// experiment knob: measure the margin of the step budget on the unchanged tree
	if d, _ := strconv.Atoi(os.Getenv("VERIF_STEPS_DIV")); d > 1 {
		cfg.MaxSteps /= uint64(d)
	}
}

// cfgRemoteSkip also lets the clock jump while tasks are runnable (stalls
// during the dial back-off).
func cfgRemoteSkip(cfg *simrt.Config, tier string) {
	cfgRemote(cfg, tier)
	cfg.TimeSkip = true
}

func setup(rc *core.RunCtx) *World {
	g := simrt.G()
	b := []int64{4096, 1, 2, 3, 5}[g.IntN(5)]
	if b != 4096 {
		simrt.SetKnob("actor.messageBatchSize", b)
	}
	simrt.SetBigInboxCap(1024)
	simnet.Net().MaxLatency = g.Range(0, 3)
	useTLS := g.Bool(0.2)
	// the stream writer's own size constant (today: its inbox size), shrunk so
	// that anything keyed to it is reached with a handful of messages
	if wb := []int64{1024, 1024, 2, 3}[g.IntN(4)]; wb != 1024 {
		if simrt.SetKnob("remote.streamWriterBatchSize", wb) {
			rc.Scen("streamWriterBatchSize knob=%d", wb)
		}
	}
	rc.Scen("batch=%d maxLatencyIdx=%d tls=%v", b, simnet.Net().MaxLatency, useTLS)
	return &World{rc: rc, nodes: map[int]*Node{}, tls: useTLS}
}

func genOps(g simrt.Gen, rc *core.RunCtx, nodes []int, targets []string, ntasks, maxOps int, bad bool) [][]sendOp {
	scripts := make([][]sendOp, ntasks)
	id := 0
	for t := range scripts {
		from := nodes[g.IntN(len(nodes))]
		per := map[string]int{}
		n := g.Range(1, maxOps)
		pool := senderPool(from)
		for i := 0; i < n; i++ {
			var others []int
			for _, x := range nodes {
				if x != from {
					others = append(others, x)
				}
			}
			to := others[g.IntN(len(others))]
			tgt := targets[g.IntN(len(targets))]
			id++
			s := sendOp{key: fmt.Sprintf("k%d", id), from: from, to: to, target: tgt, kind: g.IntN(5), sender: pool[g.IntN(len(pool))], task: t}
			if bad && g.Bool(0.15) {
				s.kind = -1 - g.IntN(3)
			}
			pk := fmt.Sprintf("%d/%s", to, tgt)
			s.n = per[pk]
			per[pk]++
			scripts[t] = append(scripts[t], s)
		}
	}
	for t, sc := range scripts {
		var sb strings.Builder
		for _, s := range sc {
			sb.WriteString(s.String() + "; ")
		}
		rc.Scen("task %d: %s", t, sb.String())
	}
	return scripts
}

func flatten(scripts [][]sendOp) []sendOp {
	var out []sendOp
	for _, sc := range scripts {
		out = append(out, sc...)
	}
	return out
}

func runScripts(w *World, scripts [][]sendOp) *int {
	finished := new(int)
	for t := range scripts {
		t := t
		if len(scripts[t]) == 0 {
			*finished++
			continue
		}
		simrt.GoNode(scripts[t][0].from, fmt.Sprintf("sender%d", t), func() {
			for _, s := range scripts[t] {
				w.doSend(s)
			}
			*finished++
		})
	}
	return finished
}

// ------------------------------------------------------------------ C15

func runEncoding(rc *core.RunCtx) {
	w := setup(rc)
	g := simrt.G()
	rc.PostRun = func(res *simrt.Result) { livelockClause(rc, res, "C15", "C17") }
	targets := []string{"rec/r0", "rec/r1", "rec/r2"}[:g.Range(2, 3)]
	if g.Bool(0.3) {
		// long ids that share a long prefix (deep child hierarchies look like this)
		long := "rec/" + strings.Repeat("deep/", 30)
		targets = append(targets, long+"a", long+"b")
	}
	if _, err := w.StartNode(1, nil); err != nil {
		panic(err)
	}
	if _, err := w.StartNode(2, targets); err != nil {
		panic(err)
	}
	maxOps := 10
	if rc.Tier == "thorough" {
		maxOps = 24
	}
	// all senders on node 1 so that batches mix everything
	if g.Bool(0.2) {
		// node 2 is addressed by a name that differs from its engine's address
		w.useAlias(2)
		rc.Scen("node2 is addressed as %s", w.dest(2))
	}
	scripts := genOpsFrom(g, rc, 1, []int{2}, targets, 1+g.Pick(3, 3, 2), maxOps, true)
	for t := range scripts {
		for i := range scripts[t] {
			if g.Bool(0.15) {
				// the sender is itself a target of the batch: the message's own
				// target, or one that other messages of the batch go to
				s := &scripts[t][i]
				tgt := targets[g.IntN(len(targets))]
				if g.Bool(0.5) {
					tgt = s.target
				}
				s.sender = actor.NewPID(w.dest(s.to), tgt)
				rc.Scen("%s: sent with sender %s, which is also a target", s.key, pidStr(s.sender))
			}
		}
	}
	fin := runScripts(w, scripts)
	simrt.WaitQuiet(30 * time.Second)
	if *fin != len(scripts) {
		rc.Violate("send-blocked", "%d of %d sender tasks finished; blocked: %v", *fin, len(scripts), simrt.BlockedTasks())
	}
	checkDeliveries(rc, w, flatten(scripts), "C15", false, "fault-free")
	rc.Nontrivial = len(flatten(scripts)) > 1
}

func genOpsFrom(g simrt.Gen, rc *core.RunCtx, from int, tos []int, targets []string, ntasks, maxOps int, bad bool) [][]sendOp {
	scripts := make([][]sendOp, ntasks)
	id := 0
	pool := senderPool(from)
	for t := range scripts {
		per := map[string]int{}
		n := g.Range(1, maxOps)
		for i := 0; i < n; i++ {
			to := tos[g.IntN(len(tos))]
			tgt := targets[g.IntN(len(targets))]
			id++
			s := sendOp{key: fmt.Sprintf("k%d", id), from: from, to: to, target: tgt, kind: g.IntN(5), sender: pool[g.IntN(len(pool))], task: t}
			if bad && g.Bool(0.12) {
				s.kind = -1 - g.IntN(3)
			}
			pk := fmt.Sprintf("%d/%s", to, tgt)
			s.n = per[pk]
			per[pk]++
			scripts[t] = append(scripts[t], s)
		}
	}
	for t, sc := range scripts {
		var sb strings.Builder
		for _, s := range sc {
			sb.WriteString(s.String() + "; ")
		}
		rc.Scen("task %d: %s", t, sb.String())
	}
	return scripts
}

func init() {
	core.Register(&core.Profile{Property: "C15", Name: "encoding", Weight: 4, Cfg: cfgRemote, Run: runEncoding,
		Doc: "two real engines with real Remotes (router, stream writer, reader, ProtoSerializer, vtproto envelope) over the simulated network; 1-3 sender tasks on node 1 send 5 proto message types with senders {nil, equal PIDs in distinct objects, pairs differing only in the address/id split, local, remote} to 2-3 recorder actors on node 2; unserialisable payloads (non-proto value; proto with invalid UTF-8) at random positions; batches are formed by the schedule and the batch knob; oracle: per target the delivered list equals the serialisable sent list in per-task order with equal payload identity, type and sender (nil <=> nil), nothing else is delivered, the sending node does not crash",
		Faults: []string{"unserialisable-payload-non-proto", "unserialisable-payload-invalid-utf8", "stalled writer (scheduler)"}})
}
