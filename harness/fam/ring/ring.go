// Package ring is the F-ring scenario family: the real RingBuffer driven by
// 1-4 simulated client tasks, checked step by step against a slice model
// (single task) or for linearizability with porcupine (several tasks).
// Property C14.
package ring

import (
	"fmt"
	"strings"
	"time"

	"github.com/anishathalye/porcupine"
	"github.com/anthdm/hollywood/ringbuffer"

	"verif/harness/core"
	"verif/sim/simrt"
)

type opKind uint8

const (
	opPush opKind = iota
	opPop
	opPopN
	opLen
)

type op struct {
	kind opKind
	arg  int64 // push value / PopN n
}

type result struct {
	ok    bool
	items []int64
	n     int64
}

func (o op) String() string {
	switch o.kind {
	case opPush:
		return fmt.Sprintf("Push(%d)", o.arg)
	case opPop:
		return "Pop()"
	case opPopN:
		return fmt.Sprintf("PopN(%d)", o.arg)
	}
	return "Len()"
}

func (r result) String(k opKind) string {
	switch k {
	case opPush:
		return "-"
	case opLen:
		return fmt.Sprint(r.n)
	}
	return fmt.Sprintf("%v,%v", r.items, r.ok)
}

type input struct {
	op op
}

// sequential specification of the queue
type qstate struct{ items []int64 }

func step(st qstate, o op, r result) (bool, qstate) {
	switch o.kind {
	case opPush:
		ns := append(append([]int64{}, st.items...), o.arg)
		return true, qstate{ns}
	case opPop:
		if len(st.items) == 0 {
			return !r.ok, st
		}
		if !r.ok || len(r.items) != 1 || r.items[0] != st.items[0] {
			return false, st
		}
		return true, qstate{st.items[1:]}
	case opPopN:
		if len(st.items) == 0 {
			return !r.ok && len(r.items) == 0, st
		}
		n := int(o.arg)
		if n > len(st.items) {
			n = len(st.items)
		}
		if !r.ok || len(r.items) != n {
			return false, st
		}
		for i := 0; i < n; i++ {
			if r.items[i] != st.items[i] {
				return false, st
			}
		}
		return true, qstate{st.items[n:]}
	case opLen:
		return r.n == int64(len(st.items)), st
	}
	return false, st
}

var model = porcupine.Model{
	Init: func() interface{} { return qstate{} },
	Step: func(state, in, out interface{}) (bool, interface{}) {
		ok, ns := step(state.(qstate), in.(op), out.(result))
		return ok, ns
	},
	Equal: func(a, b interface{}) bool {
		x, y := a.(qstate).items, b.(qstate).items
		if len(x) != len(y) {
			return false
		}
		for i := range x {
			if x[i] != y[i] {
				return false
			}
		}
		return true
	},
	DescribeOperation: func(in, out interface{}) string {
		return in.(op).String() + " -> " + out.(result).String(in.(op).kind)
	},
}

func apply(rb *ringbuffer.RingBuffer[int64], o op) result {
	switch o.kind {
	case opPush:
		rb.Push(o.arg)
		return result{}
	case opPop:
		v, ok := rb.Pop()
		if ok {
			return result{ok: true, items: []int64{v}}
		}
		return result{ok: false}
	case opPopN:
		items, ok := rb.PopN(o.arg)
		return result{ok: ok, items: items}
	}
	return result{n: rb.Len()}
}

// coverage mirror of the ring's geometry (probes only, never the oracle)
type geom struct{ mod, head, n int64 }

func (g *geom) push() {
	if g.n == g.mod-1 || g.mod == 1 {
		simrt.Probe("ring-grow")
		if g.head != 0 {
			simrt.Probe("ring-grow-while-wrapped")
		}
		g.mod *= 2
		g.head = 0
	}
	g.n++
}
func (g *geom) pop(n int64) {
	if n > g.n {
		n = g.n
	}
	if n == 0 {
		return
	}
	if g.head+n >= g.mod {
		simrt.Probe("ring-pop-across-wrap")
	}
	g.head = (g.head + n) % g.mod
	g.n -= n
}

func run(rc *core.RunCtx) {
	g := simrt.G()
	capacity := int64(g.Range(1, 8))
	ntasks := 1 + g.Pick(3, 3, 2, 2)
	if rc.Profile == "sequential" {
		ntasks = 1
	} else if rc.Profile == "concurrent" && ntasks == 1 {
		ntasks = 2
	}
	maxOps := 24
	if rc.Tier == "thorough" {
		maxOps = 40
	}
	total := g.Range(3, maxOps)
	rb := ringbuffer.New[int64](capacity)
	next := int64(1)
	scripts := make([][]op, ntasks)
	for i := 0; i < total; i++ {
		t := g.IntN(ntasks)
		var o op
		switch g.Pick(5, 2, 3, 2) {
		case 0:
			o = op{opPush, next}
			next++
		case 1:
			o = op{kind: opPop}
		case 2:
			o = op{opPopN, int64(g.Range(1, 5))}
		case 3:
			o = op{kind: opLen}
		}
		scripts[t] = append(scripts[t], o)
	}
	rc.Scen("capacity=%d tasks=%d", capacity, ntasks)
	for i, s := range scripts {
		var sb strings.Builder
		for _, o := range s {
			sb.WriteString(o.String() + " ")
		}
		rc.Scen("task%d: %s", i, sb.String())
	}

	gm := &geom{mod: capacity}
	if ntasks == 1 {
		// step-by-step against the model
		st := qstate{}
		for i, o := range scripts[0] {
			r := apply(rb, o)
			simrt.Ev("op %s -> %s", o, r.String(o.kind))
			ok, ns := step(st, o, r)
			if !ok {
				rc.Violate("sequential-model-mismatch/"+kindName(o.kind), "op #%d %s returned %s, model queue %v", i, o, r.String(o.kind), st.items)
				return
			}
			st = ns
			switch o.kind {
			case opPush:
				gm.push()
			case opPop:
				gm.pop(1)
			case opPopN:
				gm.pop(o.arg)
			}
		}
		// drain and compare the remainder
		for len(st.items) > 0 {
			v, ok := rb.Pop()
			if !ok || v != st.items[0] {
				rc.Violate("sequential-drain-mismatch", "drain got (%v,%v), model queue %v", v, ok, st.items)
				return
			}
			st.items = st.items[1:]
		}
		if l := rb.Len(); l != 0 {
			rc.Violate("len-after-drain", "Len()=%d after draining", l)
		}
		if _, ok := rb.Pop(); ok {
			rc.Violate("pop-on-empty-ok", "Pop on empty queue reported ok")
		}
		rc.Nontrivial = simrt.W != nil && (probe("ring-grow") > 0)
		return
	}

	var seq int64
	var ops []porcupine.Operation
	done := 0
	for t := 0; t < ntasks; t++ {
		t := t
		simrt.Go(fmt.Sprintf("client%d", t), func() {
			for _, o := range scripts[t] {
				simrt.Yield(simrt.OpUser)
				seq++
				call := seq
				r := apply(rb, o)
				seq++
				ret := seq
				simrt.Ev("c%d %s -> %s [%d,%d]", t, o, r.String(o.kind), call, ret)
				ops = append(ops, porcupine.Operation{ClientId: t, Input: o, Call: call, Output: r, Return: ret})
				if o.kind == opLen && r.n < 0 {
					rc.Violate("len-negative", "Len() returned %d", r.n)
				}
				switch o.kind {
				case opPush:
					gm.push()
				case opPop:
					gm.pop(int64(len(r.items)))
				case opPopN:
					gm.pop(int64(len(r.items)))
				}
			}
			done++
		})
	}
	simrt.WaitQuiet(time.Hour)
	if done != ntasks {
		rc.Violate("operation-never-returned", "%d of %d client tasks finished; blocked: %v", done, ntasks, simrt.BlockedTasks())
		return
	}
	// final drain joins the history as one more client
	for {
		seq++
		call := seq
		r := apply(rb, op{kind: opPop})
		seq++
		ops = append(ops, porcupine.Operation{ClientId: ntasks, Input: op{kind: opPop}, Call: call, Output: r, Return: seq})
		if !r.ok {
			break
		}
		if len(ops) > 400 {
			rc.Violate("drain-does-not-terminate", "more than 400 elements drained")
			return
		}
	}
	seq++
	l := rb.Len()
	ops = append(ops, porcupine.Operation{ClientId: ntasks, Input: op{kind: opLen}, Call: seq, Output: result{n: l}, Return: seq + 1})
	res := porcupine.CheckOperationsTimeout(model, ops, 10*time.Second)
	switch res {
	case porcupine.Illegal:
		var sb strings.Builder
		for _, o := range ops {
			fmt.Fprintf(&sb, "c%d[%d,%d] %s; ", o.ClientId, o.Call, o.Return, model.DescribeOperation(o.Input, o.Output))
		}
		rc.Violate("not-linearizable", "history has no linearization as a FIFO queue: %s", sb.String())
	case porcupine.Unknown:
		rc.Inconclusive("porcupine timeout on %d ops", len(ops))
	}
	rc.Nontrivial = true
}

func probe(name string) int {
	return simrt.ProbeCount(name)
}

func kindName(k opKind) string {
	return [...]string{"push", "pop", "popn", "len"}[k]
}

func init() {
	doc := "real ringbuffer.RingBuffer[int64]; capacity 1..8; 3..40 ops from Push(unique)/Pop/PopN(1..5)/Len; pre-emption before Lock and before every atomic inside the critical section"
	core.Register(&core.Profile{Property: "C14", Name: "sequential", Weight: 2, Run: run, Doc: doc + "; one task, every return value compared with a slice model, then drained"})
	core.Register(&core.Profile{Property: "C14", Name: "concurrent", Weight: 5, Run: run, Doc: doc + "; 2-4 tasks, history (call/return stamped with a global event counter) checked with porcupine against a FIFO queue model; final drain appended"})
}
