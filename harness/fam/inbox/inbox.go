// Package inbox is the F-inbox scenario family: a real actor.Inbox (ring
// buffer + CAS scheduling + worker goroutines) with a recording Processer,
// sender tasks and a starter task. Properties C01, C02, C03 (inbox level).
package inbox

import (
	"fmt"
	"time"

	"github.com/anthdm/hollywood/actor"

	"verif/harness/core"
	"verif/sim/simrt"
)

type msg struct {
	sender int // sender task index
	seq    int // per sender sequence number
	phase  int // 0 = before the sender's hand-over point, 1 = after
}

type rec struct {
	m      msg
	from   *actor.PID
	fromOK bool
	batch  int
	idx    int
}

type recProc struct {
	rc       *core.RunCtx
	pid      *actor.PID
	got      []rec
	open     int
	batches  int
	state    int // unsynchronised receiver state
	overlaps int
	maxBatch int
	foreign  int
}

func (p *recProc) Start()                             {}
func (p *recProc) PID() *actor.PID                    { return p.pid }
func (p *recProc) Send(_ *actor.PID, _ any, _ *actor.PID) {}
func (p *recProc) Shutdown()                          {}

func (p *recProc) Invoke(msgs []actor.Envelope) {
	if p.open > 0 {
		p.overlaps++
		p.rc.Violate2("C02", "overlapping-invoke", "Invoke entered while %d other invocation(s) were in progress (batch %d)", p.open, p.batches)
	}
	p.open++
	simrt.Access(p, true, "receiver state in Invoke")
	b := p.batches
	p.batches++
	if len(msgs) > p.maxBatch {
		p.maxBatch = len(msgs)
	}
	if b > 0 {
		simrt.Probe("inbox-later-batch")
	}
	for i, e := range msgs {
		m, ok := e.Msg.(msg)
		if !ok {
			p.foreign++
			p.rc.Violate2("C01", "foreign-message", "Invoke got a value that was never sent: %#v", e.Msg)
			continue
		}
		p.state++
		p.got = append(p.got, rec{m: m, from: e.Sender, batch: b, idx: i})
		simrt.Ev("recv s%d#%d batch=%d idx=%d", m.sender, m.seq, b, i)
		simrt.Yield(simrt.OpUser)
	}
	simrt.Access(p, true, "receiver state in Invoke")
	p.open--
}

type params struct {
	size       int
	batch      int64
	throughput int64
	nsend      int
	counts     []int
	startMode  int // 0 before, 1 concurrent, 2 after senders finished
	chain      bool
	handover   []int // per sender: index at which it hands over to the next (chain mode)
}

func gen(rc *core.RunCtx, focus string) params {
	g := simrt.G()
	var p params
	p.size = []int{1, 2, 3, 4, 5, 8, 64, 1024}[g.IntN(8)]
	p.batch = []int64{4096, 1, 2, 3, 5}[g.IntN(5)]
	p.throughput = []int64{300, 0, 1, 2}[g.IntN(4)]
	maxMsgs := 12
	if rc.Tier == "thorough" {
		maxMsgs = 40
	}
	p.nsend = 1 + g.Pick(3, 4, 2, 1)
	if focus == "C03" {
		maxMsgs = 3
		p.nsend = 1 + g.Pick(2, 4, 3, 2)
	}
	if focus == "C02" && p.nsend == 1 {
		p.nsend = 2
	}
	for i := 0; i < p.nsend; i++ {
		p.counts = append(p.counts, g.Range(1, maxMsgs))
	}
	p.startMode = g.Pick(3, 4, 2)
	p.chain = focus == "C01" && p.nsend > 1 && g.Bool(0.4)
	if p.chain {
		for i := 0; i < p.nsend; i++ {
			p.handover = append(p.handover, g.Range(0, p.counts[i]))
		}
	}
	return p
}

func run(focus string) func(rc *core.RunCtx) {
	return func(rc *core.RunCtx) {
		p := gen(rc, focus)
		rc.Scen("inbox size=%d batch=%d throughput=%d senders=%v start=%s chain=%v handover=%v",
			p.size, p.batch, p.throughput, p.counts, [...]string{"before", "concurrent", "after"}[p.startMode], p.chain, p.handover)
		if p.batch != 4096 {
			simrt.SetKnob("actor.messageBatchSize", p.batch)
		}
		if p.throughput != 300 {
			simrt.SetKnob("actor.defaultThroughput", p.throughput)
		}
		in := actor.NewInbox(p.size)
		proc := &recProc{rc: rc, pid: actor.NewPID("local", "rec/1")}
		pids := []*actor.PID{nil, actor.NewPID("local", "a/1"), actor.NewPID("local", "b/1"), actor.NewPID("remote:1", "a/1")}
		senderPID := func(s, k int) *actor.PID { return pids[(s+k)%len(pids)] }

		if p.startMode == 0 {
			in.Start(proc)
		}
		passed := make([]bool, p.nsend) // sender i went through its hand-over point
		handover := func(s int) {
			if s > 0 {
				// harness synchronisation, visible to the happens-before tracker
				simrt.Block("handover", func() bool { return passed[s-1] })
				simrt.HBAcquire(&hoVC)
			}
			simrt.HBRelease(&hoVC)
			passed[s] = true
		}
		finished := 0
		for s := 0; s < p.nsend; s++ {
			s := s
			simrt.Go(fmt.Sprintf("sender%d", s), func() {
				for k := 0; k < p.counts[s]; k++ {
					phase := 0
					if p.chain {
						if k == p.handover[s] {
							handover(s)
						}
						if k >= p.handover[s] {
							phase = 1
						}
					}
					in.Send(actor.Envelope{Msg: msg{s, k, phase}, Sender: senderPID(s, k)})
					simrt.Ev("sent s%d#%d", s, k)
				}
				if p.chain && p.handover[s] >= p.counts[s] {
					handover(s)
				}
				finished++
			})
		}
		switch p.startMode {
		case 1:
			simrt.Go("starter", func() {
				simrt.Yield(simrt.OpUser)
				in.Start(proc)
			})
		case 2:
			simrt.WaitQuiet(time.Hour)
			if len(proc.got) != 0 {
				rc.Violate2("C01", "delivery-before-start", "%d messages were invoked before Inbox.Start", len(proc.got))
			}
			in.Start(proc)
		}
		simrt.WaitQuiet(time.Hour)
		hoVC = nil

		total := 0
		for _, c := range p.counts {
			total += c
		}
		if finished != p.nsend {
			rc.Violate2("C09", "send-blocked", "%d of %d sender tasks finished; blocked: %v", finished, p.nsend, simrt.BlockedTasks())
			return
		}
		// ---- C03: nothing accepted may be left behind at quiescence
		if len(proc.got) < total {
			missing := total - len(proc.got)
			rc.Violate2("C03", "idle-with-nonempty-inbox", "quiescent with %d of %d accepted messages never invoked (start=%d)", missing, total, p.startMode)
		}
		// ---- C01: exactly once, faithful, ordered
		seen := map[[2]int]int{}
		last := map[int]int{}
		for s := range p.counts {
			last[s] = -1
		}
		for _, r := range proc.got {
			key := [2]int{r.m.sender, r.m.seq}
			seen[key]++
			if seen[key] == 2 {
				rc.Violate2("C01", "duplicate-delivery", "message s%d#%d invoked twice", r.m.sender, r.m.seq)
			}
			if want := senderPID(r.m.sender, r.m.seq); r.from != want {
				rc.Violate2("C01", "wrong-sender", "message s%d#%d carried sender %v, sent with %v", r.m.sender, r.m.seq, r.from, want)
			}
			if r.m.seq < last[r.m.sender] {
				rc.Violate2("C01", "per-sender-order", "message s%d#%d invoked after s%d#%d", r.m.sender, r.m.seq, r.m.sender, last[r.m.sender])
			}
			last[r.m.sender] = r.m.seq
		}
		if len(proc.got) < total {
			rc.Violate2("C01", "lost-message", "%d of %d messages never invoked", total-len(proc.got), total)
		}
		if p.chain {
			// every phase-0 message of sender i happens-before every phase-1
			// message of sender j>i (hand-over chain)
			firstP1 := map[int]int{} // sender -> position of its first phase-1 delivery
			for pos, r := range proc.got {
				if r.m.phase == 1 {
					if _, ok := firstP1[r.m.sender]; !ok {
						firstP1[r.m.sender] = pos
					}
				}
			}
			for pos, r := range proc.got {
				if r.m.phase != 0 {
					continue
				}
				for j, fp := range firstP1 {
					if j > r.m.sender && fp < pos {
						rc.Violate2("C01", "cross-sender-hb-order", "s%d#%d (sent before sender %d's hand-over) invoked after a message sender %d sent after it", r.m.sender, r.m.seq, r.m.sender, j)
					}
				}
			}
		}
		// ---- C02: HB races on receiver state
		for _, r := range simrt.Races() {
			rc.Violate2("C02", "receiver-state-race", "%s", r)
			break
		}
		if proc.maxBatch > 1 {
			simrt.Probe("inbox-batch>1")
		}
		rc.Nontrivial = p.nsend > 1 || p.startMode != 0 || proc.batches > 1
	}
}

var hoVC []uint32

func cfgHB(cfg *simrt.Config, tier string) { cfg.HB = true; cfg.MaxSteps = 400_000 }

func init() {
	base := "real actor.Inbox + ringbuffer with a recording Processer; initial size in {1,2,3,4,5,8,64,1024}; batch-size knob in {1,2,3,5,4096}; 1-4 sender tasks with uniquely numbered messages and senders from {nil, 3 PIDs}; Inbox.Start before / concurrently with / after the sends; pre-emption before every mutex and atomic operation"
	core.Register(&core.Profile{Property: "C01", Name: "inbox", Weight: 3, Run: run("C01"), Cfg: cfgHB,
		Doc: base + "; oracle: multiset received == sent, sender pointer identical, per-sender order, hand-over chains across senders"})
	core.Register(&core.Profile{Property: "C02", Name: "inbox", Weight: 3, Run: run("C02"), Cfg: cfgHB,
		Doc: base + "; oracle: Invoke intervals never overlap; vector-clock check that every access to receiver state is ordered after the previous one"})
	core.Register(&core.Profile{Property: "C03", Name: "inbox", Weight: 3, Run: run("C03"), Cfg: cfgHB,
		Doc: base + "; 1-3 messages per sender so that the push / last-empty-pop / running->idle / re-check window dominates; oracle: at quiescence everything accepted was invoked"})
}
