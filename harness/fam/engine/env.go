// Package engine is the F-engine scenario family: one real actor.Engine with
// scripted actors (trees), client tasks and event-stream monitors. Properties
// C01, C02 (engine level) and C04-C13.
package engine

import (
	"fmt"
	"io/fs"
	"reflect"
	"strings"
	"time"

	"github.com/anthdm/hollywood/actor"

	"verif/harness/core"
	simctx "verif/sim/simctx"
	"verif/sim/simrt"
)

// command carried by a user message
const (
	cNone = iota
	cPanic
	cSpawnChild // Name = child name (id), Spec = child spec index
	cSend       // Name = target actor id, Sub = message
	cForward    // Name = target actor id
	cRespond    // K = number of replies, Delay = before the first reply
	cStop       // Name = target actor id
	cPoison     // Name = target actor id
	cReport     // record Children()/Parent()/GetPID
	cSleep      // Delay inside Receive
)

type UMsg struct {
	ID    int
	Src   string // label of the sending client / actor
	N     int    // sequence number within (Src, target)
	Op    int
	Name  string
	K     int
	Delay time.Duration
	Sub   *UMsg
	Spec  *Spec
	// cRespond: the K replies are sent from K separate goroutines
	Scatter bool
	// cPanic: the panic value is an *actor.InternalError (restart that does not
	// use up the restart budget)
	Internal bool
	// cPanic: the panic is raised 150 frames below Receive
	Deep bool
	// cPanic: kind of panic value (0 string, 1 error, 2 error holding a nil pointer, 3 struct)
	PanicVal int
	// cSpawnChild: observer of the stages of the SpawnChild call
	Hook func(stage int)
}

func (m *UMsg) String() string {
	if m == nil {
		return "<nil>"
	}
	s := fmt.Sprintf("m%d(%s#%d)", m.ID, m.Src, m.N)
	switch m.Op {
	case cPanic:
		s += "!panic"
		if m.Internal {
			s += "(InternalError)"
		}
		if m.Deep {
			s += "(deep)"
		}
		if m.PanicVal != 0 {
			s += fmt.Sprintf("(value kind %d)", m.PanicVal)
		}
	case cSpawnChild:
		s += "!spawn:" + m.Name
	case cSend:
		s += "!send:" + m.Name
	case cForward:
		s += "!fwd:" + m.Name
	case cRespond:
		s += fmt.Sprintf("!respond*%d@%v", m.K, m.Delay)
	case cStop:
		s += "!stop:" + m.Name
	case cPoison:
		s += "!poison:" + m.Name
	case cReport:
		s += "!report"
	case cSleep:
		s += fmt.Sprintf("!sleep%v", m.Delay)
	}
	return s
}

// Spec describes how a scripted actor is spawned.
type Spec struct {
	Kind, ID      string
	MaxRestarts   int
	RestartDelay  time.Duration
	InboxSize     int
	NMiddleware   int
	MWSplit       int // >0: the chain is given as two WithMiddleware options, split at this index
	MWBase        int // >0: the first MWBase middlewares are passed as a slice shared with other actors (spare capacity)
	PanicInit     map[int]bool // incarnation index -> panic while handling Initialized
	PanicStarted  map[int]bool
	PanicStopped  map[int]bool
	Children      []*Spec // spawned while handling Started
	SlowStarted   bool    // yield a few times inside Started
	SlowStopped   int     // yield this many times inside Stopped (a shutdown that takes a while)
	UserCtx       bool    // spawned WithContext(the run's cancellable user context)
	MWPanicStopped bool   // the outermost middleware panics on Stopped before calling next
}

func (s *Spec) FullID() string { return s.Kind + "/" + s.ID }

// delivery kinds
const (
	dInit = iota
	dStarted
	dStopped
	dUser
	dOther
)

var dNames = [...]string{"Initialized", "Started", "Stopped", "user", "other"}

// Delivery is one Receive invocation as seen by a scripted receiver.
type Delivery struct {
	Seq      int // global event number at entry
	EndSeq   int // global event number at exit (0 while running / panicked)
	Actor    string
	Inc      int
	Kind     int
	Msg      *UMsg
	Other    string // type name for dOther
	Sender   *actor.PID
	Panicked bool
	MW       []string // middleware trace around this delivery: "in0","in1","recv","out1","out0"
	SimTime  int64
	Task     int
	// for Stopped deliveries: children found registered at that moment
	ChildrenStillRegistered []string
}

// Info is the harness view of one logical actor (one id).
type Info struct {
	ID        string
	Epoch     int // 0 for the first process spawned under this id, 1 for the first respawn, ...
	Spec      *Spec
	Parent    string
	Produced  int // Producer calls
	Incs      [][]*Delivery
	PID       *actor.PID
	open      int // Receive invocations in progress
	Reports   []Report
	spawnRet  int // event seq at which Spawn returned (0 = not yet)
	mw        map[int]*mwState // per task: middleware frames seen around the current delivery
	epoch     int              // bumped by harness when the id is deliberately respawned
}

type mwState struct {
	cur  []string
	last *Delivery
}

func (in *Info) mwOf() *mwState {
	if in.mw == nil {
		in.mw = map[int]*mwState{}
	}
	id := simrt.Cur().ID
	st := in.mw[id]
	if st == nil {
		st = &mwState{}
		in.mw[id] = st
	}
	return st
}

type Report struct {
	Seq      int
	Inc      int
	Children []string
	HasNil   bool
	Parent   string
	SelfReg  bool
}

// Ev is an entry of the global history that is not a delivery.
type Ev struct {
	Seq  int
	Kind string // "send","send-ret","spawn","spawn-ret","poison","stop","ctx-done","event", ...
	A    string
	B    string
	Msg  *UMsg
	Any  any
}

type Env struct {
	rc      *core.RunCtx
	E       *actor.Engine
	seq     int
	actors  map[string]*Info   // id -> latest process instance
	byID    map[string][]*Info // id -> all process instances (respawns)
	insts   []*Info            // all process instances in creation order
	order   []string           // actor ids in creation order
	Dels    []*Delivery
	Evs     []Ev
	nextMsg int
	// monitors: event-stream subscribers recording what they get
	Monitors []*Monitor
	Watches  []*Watch
	overlaps int
	relayN   map[string]int
	// middleware slices handed to WithMiddleware for several actors (same
	// backing array, spare capacity), by length
	mwBases map[int][]actor.MiddlewareFunc
	userCtx simctx.Context
	// CancelUserContext cancels UserContext()
	CancelUserContext func()
}

// UserContext is the application's own cancellable context that specs with
// UserCtx are spawned with (actor.WithContext). Cancelling it is the
// application's business: it must not change how the actor is stopped.
func (env *Env) UserContext() simctx.Context {
	if env.userCtx == nil {
		env.userCtx, env.CancelUserContext = simctx.WithCancel(simctx.Background())
	}
	return env.userCtx
}

// sharedBase returns the slice every spec with MWBase == n passes to
// WithMiddleware: a caller that keeps one "base chain" around and configures
// several actors from it.
func (env *Env) sharedBase(n int) []actor.MiddlewareFunc {
	if b, ok := env.mwBases[n]; ok {
		return b
	}
	b := make([]actor.MiddlewareFunc, n, n+8)
	for i := range b {
		b[i] = env.middleware("", i)
	}
	if env.mwBases == nil {
		env.mwBases = map[int][]actor.MiddlewareFunc{}
	}
	env.mwBases[n] = b
	return b
}

// scrambleBases is the caller re-using its slices after the spawns: the
// entries are overwritten with middlewares that belong to nobody.
func (env *Env) scrambleBases() {
	for n, b := range env.mwBases {
		for i := range b {
			b[i] = env.middleware("\x00caller's slice after spawn", i)
		}
		delete(env.mwBases, n)
	}
}

func NewEnv(rc *core.RunCtx) *Env {
	e, err := actor.NewEngine(actor.NewEngineConfig())
	if err != nil {
		panic(err)
	}
	return &Env{rc: rc, E: e, actors: map[string]*Info{}, byID: map[string][]*Info{}}
}

func (env *Env) tick() int { env.seq++; return env.seq }

func (env *Env) ev(kind, a, b string, m *UMsg, x any) int {
	s := env.tick()
	env.Evs = append(env.Evs, Ev{Seq: s, Kind: kind, A: a, B: b, Msg: m, Any: x})
	simrt.Ev("%s %s %s %s", kind, a, b, m)
	return s
}

// info returns the latest process instance known under id (creating a
// placeholder when none exists yet).
func (env *Env) info(id string) *Info {
	in := env.actors[id]
	if in == nil {
		in = env.newInst(id)
	}
	return in
}

// newInst records a new process instance for id. Every Spawn that wins creates
// one (its Producer closure is invoked for the first time); restarts reuse it.
func (env *Env) newInst(id string) *Info {
	in := &Info{ID: id, Epoch: len(env.byID[id])}
	env.byID[id] = append(env.byID[id], in)
	env.actors[id] = in
	env.insts = append(env.insts, in)
	if in.Epoch == 0 {
		env.order = append(env.order, id)
	} else {
		simrt.Probe("id-respawned")
	}
	return in
}

func (env *Env) NewMsg(src string, n int) *UMsg {
	env.nextMsg++
	return &UMsg{ID: env.nextMsg, Src: src, N: n}
}

func pidStr(p *actor.PID) string {
	if p == nil {
		return "nil"
	}
	return p.Address + "/" + p.ID
}

// scripted is the receiver of one incarnation.
type scripted struct {
	env   *Env
	in    *Info
	inc   int
	state int
}

func (env *Env) producer(spec *Spec, parent string) actor.Producer {
	id := spec.FullID()
	var in *Info // the process instance this Producer closure belongs to
	return func() actor.Receiver {
		if in == nil {
			if cur := env.actors[id]; cur != nil && cur.Spec == nil {
				in = cur // placeholder created by an early lookup
			} else {
				in = env.newInst(id)
			}
			in.Spec = spec
			in.Parent = parent
		}
		in.Produced++
		in.Incs = append(in.Incs, nil)
		s := &scripted{env: env, in: in, inc: len(in.Incs) - 1}
		env.ev("produce", id, fmt.Sprintf("%d.%d", in.Epoch, s.inc), nil, nil)
		return s
	}
}

// opts builds the spawn options of a spec.
func (env *Env) opts(spec *Spec) []actor.OptFunc {
	o := []actor.OptFunc{actor.WithID(spec.ID), actor.WithMaxRestarts(spec.MaxRestarts), actor.WithRestartDelay(spec.RestartDelay)}
	if spec.InboxSize > 0 {
		o = append(o, actor.WithInboxSize(spec.InboxSize))
	}
	if spec.UserCtx {
		o = append(o, actor.WithContext(env.UserContext()))
	}
	if n := spec.MWBase; n > 0 && n < spec.NMiddleware {
		// the first n come from a slice shared with other actors, the rest are this actor's own
		var rest []actor.MiddlewareFunc
		for i := n; i < spec.NMiddleware; i++ {
			rest = append(rest, env.middleware(spec.FullID(), i))
		}
		o = append(o, actor.WithMiddleware(env.sharedBase(n)...), actor.WithMiddleware(rest...))
	} else if spec.NMiddleware > 0 {
		var mws []actor.MiddlewareFunc
		for i := 0; i < spec.NMiddleware; i++ {
			mws = append(mws, env.middleware(spec.FullID(), i))
		}
		// the chain may be configured by one WithMiddleware option or by several
		if k := spec.MWSplit; k > 0 && k < len(mws) {
			o = append(o, actor.WithMiddleware(mws[:k]...), actor.WithMiddleware(mws[k:]...))
		} else {
			o = append(o, actor.WithMiddleware(mws...))
		}
	}
	return o
}

func msgKind(m any) (int, *UMsg, string) {
	switch v := m.(type) {
	case actor.Initialized:
		return dInit, nil, ""
	case actor.Started:
		return dStarted, nil, ""
	case actor.Stopped:
		return dStopped, nil, ""
	case *UMsg:
		return dUser, v, ""
	}
	return dOther, nil, reflect.TypeOf(m).String()
}

func (env *Env) middleware(id string, i int) actor.MiddlewareFunc {
	return func(next actor.ReceiveFunc) actor.ReceiveFunc {
		return func(c *actor.Context) {
			// the process instance is the one whose receiver is current
			sr, ok := c.Receiver().(*scripted)
			if !ok && id == "" {
				next(c)
				return
			}
			var in *Info
			if ok {
				in = sr.in
			} else {
				in = env.info(id)
			}
			if id != "" && in.ID != id {
				// a middleware configured for another actor (or none) runs in this actor's chain
				st := in.mwOf()
				st.cur = append(st.cur, fmt.Sprintf("FOREIGN(%s)%d", strings.TrimPrefix(id, "\x00"), i))
				next(c)
				return
			}
			k, um, other := msgKind(c.Message())
			if i == 0 && k == dStopped && in.Spec != nil && in.Spec.MWPanicStopped {
				// the outermost middleware fails on Stopped before calling next: the
				// panic must be contained, and nobody may hand Stopped to the
				// receiver behind the chain's back
				simrt.Fault("middleware-crash-in-Stopped")
				panic(fmt.Sprintf("scripted crash in middleware 0 of %s on Stopped", in.ID))
			}
			tag := dNames[k]
			if um != nil {
				tag = fmt.Sprintf("m%d", um.ID)
			} else if other != "" {
				tag = other
			}
			st := in.mwOf()
			st.cur = append(st.cur, fmt.Sprintf("in%d:%s:%s", i, tag, pidStr(c.Sender())))
			mark := st.last
			// a delivery can be pre-empted between two levels of its chain
			simrt.Yield(simrt.OpUser)
			defer func() {
				// the receiver ran (last advanced): the exit belongs to that delivery
				st := in.mwOf()
				if st.last != nil && st.last != mark {
					st.last.MW = append(st.last.MW, fmt.Sprintf("out%d", i))
				} else {
					st.cur = append(st.cur, fmt.Sprintf("out%d(no-receiver)", i))
				}
			}()
			next(c)
		}
	}
}

// Receive records the delivery and obeys the command carried by the message.
func (s *scripted) Receive(c *actor.Context) {
	simrt.ScriptedPanicOver()
	env, in := s.env, s.in
	k, um, other := msgKind(c.Message())
	d := &Delivery{Seq: env.tick(), Actor: in.ID, Inc: s.inc, Kind: k, Msg: um, Other: other, Sender: c.Sender(), SimTime: simrt.Now(), Task: simrt.Cur().ID}
	if in.open > 0 {
		env.overlaps++
		env.rc.Violate2("C02", "overlapping-receive", "actor %s: Receive(%s) entered while another Receive of the same actor was in progress", in.ID, dNames[k])
	}
	if cur, ok := c.Receiver().(*scripted); ok && cur != s {
		// the context names another receiver as the current one: this delivery
		// went to a receiver that has been replaced
		env.rc.Violate2("C13", "chain-ends-at-stale-receiver", "actor %s: %s was handed (through the chain) to the receiver of incarnation %d while incarnation %d is the current receiver", in.ID, dNames[k], s.inc, cur.inc)
		env.rc.Violate2("C05", "delivered-to-failed-incarnation", "actor %s: %s went to the receiver of incarnation %d although incarnation %d is current", in.ID, dNames[k], s.inc, cur.inc)
	}
	in.open++
	simrt.Access(in, true, "Receive("+dNames[k]+") of "+in.ID)
	if s.inc < len(in.Incs) {
		in.Incs[s.inc] = append(in.Incs[s.inc], d)
	}
	env.Dels = append(env.Dels, d)
	mst := in.mwOf()
	d.MW = append(mst.cur, "recv")
	mst.cur = nil
	mst.last = d
	if in.PID == nil {
		in.PID = c.PID()
	}
	simrt.Ev("deliver %s inc=%d.%d %s %s from=%s", in.ID, in.Epoch, s.inc, dNames[k], um, pidStr(c.Sender()))
	s.state++
	defer func() {
		d.EndSeq = env.tick()
		simrt.Access(in, true, "Receive("+dNames[k]+") of "+in.ID)
		in.open--
		if r := recover(); r != nil {
			d.Panicked = true
			panic(r)
		}
	}()
	simrt.Yield(simrt.OpUser)
	if k == dUser && len(env.mwBases) > 0 {
		env.scrambleBases()
	}
	spec := in.Spec
	switch k {
	case dInit:
		if spec.PanicInit[s.inc] {
			simrt.Fault("actor-crash-in-Initialized")
			panic(fmt.Sprintf("scripted crash in Initialized of %s inc %d", in.ID, s.inc))
		}
	case dStarted:
		for _, ch := range spec.Children {
			env.ev("spawnchild", in.ID, ch.FullID(), nil, nil)
			c.SpawnChild(env.producer(ch, in.ID), childName(in.ID, ch), env.opts(ch)...)
			env.ev("spawnchild-ret", in.ID, ch.FullID(), nil, nil)
		}
		if spec.SlowStarted {
			simrt.Yield(simrt.OpUser)
			simrt.Yield(simrt.OpUser)
		}
		if spec.PanicStarted[s.inc] {
			simrt.Fault("actor-crash-in-Started")
			panic(fmt.Sprintf("scripted crash in Started of %s inc %d", in.ID, s.inc))
		}
	case dStopped:
		// every child must be gone from the registry by the time its parent
		// handles Stopped
		for _, ch := range spec.Children {
			if c.Engine().Registry.GetPID(kindOf(ch.FullID()), idOf(ch.FullID())) != nil {
				d.ChildrenStillRegistered = append(d.ChildrenStillRegistered, ch.FullID())
			}
		}
		for i := 0; i < spec.SlowStopped; i++ {
			simrt.Yield(simrt.OpUser)
		}
		if spec.PanicStopped[s.inc] {
			simrt.Fault("actor-crash-in-Stopped")
			panic(fmt.Sprintf("scripted crash in Stopped of %s inc %d", in.ID, s.inc))
		}
	case dUser:
		s.obey(c, um)
	}
}

//go:noinline
func deepPanic(depth int, v string) int {
	if depth == 0 {
		panic(v)
	}
	return deepPanic(depth-1, v) + 1
}

func (s *scripted) obey(c *actor.Context, m *UMsg) {
	env, in := s.env, s.in
	switch m.Op {
	case cPanic:
		if m.Internal {
			simrt.Fault("actor-crash-InternalError")
			panic(&actor.InternalError{From: fmt.Sprintf("scripted crash on %s in %s inc %d", m, in.ID, s.inc), Err: fmt.Errorf("scripted")})
		}
		simrt.Fault("actor-crash-in-Receive")
		if m.Deep {
			// raised at the bottom of a deep call chain (the runtime elides frames
			// from the trace that the restart path parses)
			simrt.Fault("actor-crash-deep-stack")
			deepPanic(150, fmt.Sprintf("scripted crash on %s in %s inc %d", m, in.ID, s.inc))
		}
		text := fmt.Sprintf("scripted crash on %s in %s inc %d", m, in.ID, s.inc)
		switch m.PanicVal {
		case 1: // an error value
			simrt.ScriptedPanic(fmt.Errorf("%s", text))
		case 2: // an error holding a nil pointer: calling Error() on it panics in its turn
			var pe *fs.PathError
			var err error = pe
			simrt.ScriptedPanic(err)
		case 4: // a nil *actor.InternalError: the type the restart path looks for, with nothing behind it
			var ie *actor.InternalError
			simrt.ScriptedPanic(ie)
		case 3: // a struct value
			simrt.ScriptedPanic(struct {
				Why  string
				Code int
			}{text, 7})
		}
		panic(text)
	case cSpawnChild:
		env.ev("spawnchild", in.ID, m.Spec.FullID(), nil, nil)
		prod := env.producer(m.Spec, in.ID)
		if m.Hook != nil {
			// stage 0: call, 1: this call's Producer ran for the first time, 2: returned
			inner, ran := prod, false
			prod = func() actor.Receiver {
				if !ran {
					ran = true
					m.Hook(1)
				}
				return inner()
			}
			m.Hook(0)
		}
		c.SpawnChild(prod, childName(in.ID, m.Spec), env.opts(m.Spec)...)
		if m.Hook != nil {
			m.Hook(2)
		}
		env.ev("spawnchild-ret", in.ID, m.Spec.FullID(), nil, nil)
	case cSend:
		// successive sends from one actor: numbered in the order the relay handles them
		m.Sub.Src = in.ID + "=>"
		if env.relayN == nil {
			env.relayN = map[string]int{}
		}
		m.Sub.N = env.relayN[in.ID+"=>"+m.Name]
		env.relayN[in.ID+"=>"+m.Name]++
		env.ev("send", in.ID, m.Name, m.Sub, c.PID())
		c.Send(actor.NewPID("local", m.Name), m.Sub)
		env.ev("send-ret", in.ID, m.Name, m.Sub, nil)
	case cForward:
		env.ev("forward", in.ID, m.Name, m, nil)
		c.Forward(actor.NewPID("local", m.Name))
	case cRespond:
		if m.Delay > 0 {
			simrt.Sleep(m.Delay)
		}
		if m.Scatter && c.Sender() != nil {
			// the replies come from several goroutines (a front actor that fans a
			// request out to workers which all answer the original sender)
			to, eng := c.Sender(), c.Engine()
			for i := 0; i < m.K; i++ {
				i := i
				simrt.Go("replier", func() {
					env.ev("respond", in.ID, pidStr(to), m, i)
					eng.Send(to, &Reply{Req: m.ID, I: i, By: in.ID})
					env.ev("respond-ret", in.ID, pidStr(to), m, i)
				})
			}
			break
		}
		for i := 0; i < m.K; i++ {
			env.ev("respond", in.ID, pidStr(c.Sender()), m, i)
			c.Respond(&Reply{Req: m.ID, I: i, By: in.ID})
			env.ev("respond-ret", in.ID, pidStr(c.Sender()), m, i)
		}
	case cStop:
		env.watch("stop", in.ID, m.Name, c.Engine().Stop(actor.NewPID("local", m.Name)))
	case cPoison:
		env.watch("poison", in.ID, m.Name, c.Engine().Poison(actor.NewPID("local", m.Name)))
	case cSleep:
		simrt.Sleep(m.Delay)
	case cReport:
		r := Report{Seq: env.tick(), Inc: s.inc}
		for _, ch := range c.Children() {
			if ch == nil {
				r.HasNil = true
				continue
			}
			r.Children = append(r.Children, ch.ID)
		}
		if p := c.Parent(); p != nil {
			r.Parent = p.ID
		}
		r.SelfReg = c.GetPID(in.ID) != nil
		in.Reports = append(in.Reports, r)
		simrt.Ev("report %s children=%v parent=%s", in.ID, r.Children, r.Parent)
	}
}

// Reply is what a responder sends back.
type Reply struct {
	Req int
	I   int
	By  string
}

// Watch records a stop/poison call and, from a watcher task, the moment its
// context is observed done together with the state required by C07 at that
// moment.
type Watch struct {
	Kind     string // "stop" | "poison"
	By       string
	Target   string
	CallSeq  int
	DoneSeq  int // 0 = never observed done
	// observations at the moment Done was observed
	StoppedSeen  bool
	Registered   bool
	HandledAtDone map[int]bool // msg ids delivered to the target so far
	ParentStopSeq int
}

func (env *Env) watch(kind, by, target string, ctx interface{ Done() <-chan struct{} }) *Watch {
	w := &Watch{Kind: kind, By: by, Target: target, CallSeq: env.tick()}
	env.Watches = append(env.Watches, w)
	simrt.Ev("%s-call by=%s target=%s", kind, by, target)
	simrt.GoNode(0, "watch-"+target, func() {
		simrt.Recv(ctx.Done())
		w.DoneSeq = env.tick()
		w.Registered = env.E.Registry.GetPID(kindOf(target), idOf(target)) != nil
		latestStopped := false
		for i, in := range env.byID[target] {
			latestStopped = false
			for _, inc := range in.Incs {
				for _, d := range inc {
					if d.Kind == dStopped && d.EndSeq != 0 {
						w.StoppedSeen = true
						latestStopped = true
					}
				}
			}
			_ = i
		}
		// the id was spawned again after the stopped process ended (a restarted
		// parent re-creating its child): the registration belongs to a new actor
		if w.Registered && w.StoppedSeen && !latestStopped {
			w.Registered = false
			simrt.Probe("stop-target-respawned-before-done")
		}
		simrt.Ev("ctx-done %s target=%s registered=%v stoppedSeen=%v", kind, target, w.Registered, w.StoppedSeen)
	})
	return w
}

// childName is the name to pass to SpawnChild so that the child's id becomes
// spec.FullID(): hollywood builds the child kind as parentID + "/" + name.
func childName(parentID string, ch *Spec) string {
	pre := parentID + "/"
	if !strings.HasPrefix(ch.Kind, pre) {
		panic("harness: child spec kind " + ch.Kind + " does not extend parent id " + parentID)
	}
	return ch.Kind[len(pre):]
}

func kindOf(full string) string {
	i := strings.LastIndex(full, "/")
	if i < 0 {
		return full
	}
	return full[:i]
}

func idOf(full string) string {
	i := strings.LastIndex(full, "/")
	if i < 0 {
		return ""
	}
	return full[i+1:]
}

// Monitor is an event-stream subscriber that records everything it receives.
type Monitor struct {
	Name   string
	PID    *actor.PID
	Events []MonEv
}

type MonEv struct {
	Seq int
	Ev  any
}

func (env *Env) NewMonitor(name string) *Monitor {
	m := &Monitor{Name: name}
	m.PID = env.E.SpawnFunc(func(c *actor.Context) {
		switch c.Message().(type) {
		case actor.Initialized, actor.Started, actor.Stopped:
			return
		}
		m.Events = append(m.Events, MonEv{env.tick(), c.Message()})
		simrt.Ev("monitor %s got %T", name, c.Message())
	}, "monitor", actor.WithID(name))
	env.E.Subscribe(m.PID)
	env.Monitors = append(env.Monitors, m)
	return m
}

// Spawn spawns a scripted top-level actor from the calling task.
func (env *Env) Spawn(spec *Spec) *actor.PID {
	id := spec.FullID()
	env.ev("spawn", "client", id, nil, nil)
	pid := env.E.Spawn(env.producer(spec, ""), spec.Kind, env.opts(spec)...)
	s := env.ev("spawn-ret", "client", id, nil, nil)
	if in := env.actors[id]; in != nil && in.spawnRet == 0 {
		in.spawnRet = s
	}
	return pid
}

// Send sends a user message from a client task.
func (env *Env) Send(from string, target string, m *UMsg, sender *actor.PID) {
	env.ev("send", from, target, m, sender)
	if sender != nil {
		env.E.SendWithSender(actor.NewPID("local", target), m, sender)
	} else {
		env.E.Send(actor.NewPID("local", target), m)
	}
	env.ev("send-ret", from, target, m, nil)
}

// DeadLetters returns the dead-letter events seen by monitor m.
func (m *Monitor) DeadLetters() []actor.DeadLetterEvent {
	var out []actor.DeadLetterEvent
	for _, e := range m.Events {
		if d, ok := e.Ev.(actor.DeadLetterEvent); ok {
			out = append(out, d)
		}
	}
	return out
}

// userDeliveries returns the deliveries of user messages to an actor id in
// order, over all incarnations.
func (env *Env) userDeliveries(id string) []*Delivery {
	var out []*Delivery
	for _, d := range env.Dels {
		if d.Actor == id && d.Kind == dUser {
			out = append(out, d)
		}
	}
	return out
}

func setKnobs(rc *core.RunCtx) (batch int64) {
	g := simrt.G()
	batch = []int64{4096, 1, 2, 3, 5}[g.IntN(5)]
	if batch != 4096 {
		simrt.SetKnob("actor.messageBatchSize", batch)
	}
	// the worker's "I have had my share, let others run" branch is taken after
	// `throughput` non-empty pops in a row: make it reachable with a few messages
	if tp := []int64{300, 300, 1, 2, 3}[g.IntN(5)]; tp != 300 {
		if simrt.SetKnob("actor.defaultThroughput", tp) {
			rc.Scen("throughput knob=%d", tp)
		}
	}
	return
}

func traceOf(inc []*Delivery) string {
	var sb strings.Builder
	for _, d := range inc {
		switch d.Kind {
		case dUser:
			fmt.Fprintf(&sb, "m%d", d.Msg.ID)
		case dOther:
			sb.WriteString(d.Other)
		default:
			sb.WriteString(dNames[d.Kind])
		}
		if d.Panicked {
			sb.WriteString("!")
		}
		sb.WriteString(" ")
	}
	return sb.String()
}
