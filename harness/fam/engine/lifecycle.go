package engine

import (
	"fmt"
	"time"

	"github.com/anthdm/hollywood/actor"

	"verif/harness/core"
	"verif/sim/simrt"
)

// lifecycle scenario: a few scripted actors (optionally with children),
// concurrent sender clients, scripted crashes at Initialized / Started / user
// messages, optional stop/poison callers. Serves C01, C02 (engine level),
// C04, C05, C06, C13.

type lcParams struct {
	focus       string
	stops       bool // stop/poison callers present
	crashes     bool
	exceed      bool // some actor is driven beyond its restart budget
	lifeCrashes bool // crashes inside Initialized/Started
	mw          bool
	children    bool
	stopCrash   bool // receivers may panic while handling Stopped
	internal    bool // some crashes carry *actor.InternalError
}

type lcClientOp struct {
	kind   int // 0 send, 1 stop, 2 poison, 3 yield
	target string
	msg    *UMsg
	sender *actor.PID
}

type lcScenario struct {
	specs   []*Spec
	clients [][]lcClientOp
	spawnBy []int // which client spawns spec i (-1: main before clients start)
	crashN  map[string]int
	// cancelAfter >= 0: some actors are spawned WithContext(user context), which
	// the application cancels after this much simulated time
	cancelAfter time.Duration
}

func genLifecycle(rc *core.RunCtx, env *Env, p lcParams) *lcScenario {
	g := simrt.G()
	sc := &lcScenario{crashN: map[string]int{}}
	nact := 1 + g.Pick(5, 3, 1)
	delays := []time.Duration{0, time.Millisecond, 500 * time.Millisecond}
	for i := 0; i < nact; i++ {
		sp := &Spec{Kind: "act", ID: fmt.Sprintf("a%d", i), MaxRestarts: g.Pick(2, 3, 3, 2), RestartDelay: delays[g.IntN(3)],
			InboxSize: []int{1024, 1, 2, 4}[g.IntN(4)], PanicInit: map[int]bool{}, PanicStarted: map[int]bool{}, PanicStopped: map[int]bool{}}
		if p.mw {
			sp.NMiddleware = g.Range(1, 3)
			sp.MWSplit = g.Range(0, sp.NMiddleware-1)
			sp.MWPanicStopped = g.Bool(0.12)
		} else if g.Bool(0.2) {
			sp.NMiddleware = g.Range(1, 2)
		}
		if p.children && g.Bool(0.5) {
			nch := g.Range(1, 2)
			for c := 0; c < nch; c++ {
				ch := &Spec{Kind: sp.FullID() + "/ch", ID: fmt.Sprintf("c%d", c), MaxRestarts: 1, InboxSize: 4, PanicInit: map[int]bool{}, PanicStarted: map[int]bool{}, PanicStopped: map[int]bool{}}
				if p.mw {
					ch.NMiddleware = g.Range(0, 2)
				}
				sp.Children = append(sp.Children, ch)
			}
		}
		sp.SlowStarted = g.Bool(0.3)
		sc.specs = append(sc.specs, sp)
	}
	if p.mw && g.Bool(0.35) {
		// the actors are configured from one shared base chain plus their own tail
		for _, sp := range sc.specs {
			if sp.NMiddleware >= 2 {
				sp.MWBase, sp.MWSplit = 1, 0
			}
		}
	}
	// crash plan
	budgetLeft := map[string]int{}
	for _, sp := range sc.specs {
		budgetLeft[sp.FullID()] = sp.MaxRestarts
	}
	exceedTarget := ""
	if p.exceed {
		exceedTarget = sc.specs[g.IntN(len(sc.specs))].FullID()
	}
	if p.lifeCrashes {
		for _, sp := range sc.specs {
			id := sp.FullID()
			inc := 0
			for k := 0; k < 2; k++ {
				if !g.Bool(0.35) {
					continue
				}
				if budgetLeft[id] <= 0 && id != exceedTarget {
					break
				}
				// mostly the next incarnation in a row, sometimes a later one (which
				// is only reached after crashes on user messages)
				at := inc
				if g.Bool(0.3) {
					at = inc + g.Range(1, 2)
				}
				if g.Bool(0.5) {
					sp.PanicInit[at] = true
				} else {
					sp.PanicStarted[at] = true
				}
				inc = at + 1
				budgetLeft[id]--
				sc.crashN[id]++
			}
		}
	}
	if p.stopCrash {
		for _, sp := range sc.specs {
			for inc := 0; inc < 5; inc++ {
				if g.Bool(0.4) {
					sp.PanicStopped[inc] = true
				}
			}
		}
	}
	nclients := 1 + g.Pick(3, 4, 2)
	maxOps := 8
	if rc.Tier == "thorough" {
		maxOps = 16
	}
	internalN := map[string]int{}
	senderPool := []*actor.PID{nil, actor.NewPID("local", "ext/1"), actor.NewPID("local", "ext/2")}
	for c := 0; c < nclients; c++ {
		var ops []lcClientOp
		n := g.Range(1, maxOps)
		perTarget := map[string]int{}
		src := fmt.Sprintf("c%d", c)
		for i := 0; i < n; i++ {
			sp := sc.specs[g.IntN(len(sc.specs))]
			tgt := sp.FullID()
			if len(sp.Children) > 0 && g.Bool(0.25) {
				tgt = sp.Children[g.IntN(len(sp.Children))].FullID()
			}
			k := g.Pick(12, 1, 1, 2)
			if !p.stops && (k == 1 || k == 2) {
				k = 0
			}
			switch k {
			case 0:
				m := env.NewMsg(src, perTarget[tgt])
				perTarget[tgt]++
				if p.crashes && g.Bool(0.25) {
					root := tgt
					if p.internal && internalN[root] < 3 && g.Bool(0.5) {
						m.Op, m.Internal = cPanic, true
						internalN[root]++
						sc.crashN[root]++
					} else if budgetLeft[root] > 0 || root == exceedTarget {
						m.Op = cPanic
						m.Deep = g.Bool(0.1)
						if !m.Deep {
							m.PanicVal = g.Pick(14, 2, 2, 2, 1) // mostly a string; an error, an error holding a nil pointer, a struct, a nil *InternalError
						}
						budgetLeft[root]--
						sc.crashN[root]++
					}
				} else if g.Bool(0.08) {
					m.Op = cReport
				} else if (p.focus == "C01" || p.focus == "C03") && len(sc.specs) > 1 && g.Bool(0.3) {
					// the target relays a fresh message to another actor (Context.Send)
					other := sc.specs[g.IntN(len(sc.specs))]
					if other.FullID() != tgt {
						m.Op = cSend
						m.Name = other.FullID()
						m.Sub = env.NewMsg("relay", 0)
					}
				}
				ops = append(ops, lcClientOp{kind: 0, target: tgt, msg: m, sender: senderPool[g.IntN(len(senderPool))]})
			case 1:
				ops = append(ops, lcClientOp{kind: 1, target: tgt})
			case 2:
				ops = append(ops, lcClientOp{kind: 2, target: tgt})
			case 3:
				ops = append(ops, lcClientOp{kind: 3})
			}
		}
		sc.clients = append(sc.clients, ops)
	}
	if p.exceed {
		// make sure the budget of exceedTarget really is exceeded: append crashing messages
		need := budgetLeft[exceedTarget] + 1
		c := g.IntN(nclients)
		src := fmt.Sprintf("c%dx", c)
		for i := 0; i < need; i++ {
			m := env.NewMsg(src, i)
			m.Op = cPanic
			sc.crashN[exceedTarget]++
			pos := g.IntN(len(sc.clients[c]) + 1)
			op := lcClientOp{kind: 0, target: exceedTarget, msg: m}
			sc.clients[c] = append(sc.clients[c][:pos], append([]lcClientOp{op}, sc.clients[c][pos:]...)...)
		}
		// per-source order inside src must follow position order: renumber
		n := 0
		for i := range sc.clients[c] {
			if sc.clients[c][i].kind == 0 && sc.clients[c][i].msg.Src == src {
				sc.clients[c][i].msg.N = n
				n++
			}
		}
		// sometimes one of its children runs out of budget as well, at about the
		// same time, and takes a while to handle Stopped: the parent's shutdown
		// then meets a child that is already shutting down
		for _, sp := range sc.specs {
			if sp.FullID() != exceedTarget || len(sp.Children) == 0 || !g.Bool(0.5) {
				continue
			}
			ch := sp.Children[g.IntN(len(sp.Children))]
			ch.SlowStopped = g.Range(1, 4)
			src2 := fmt.Sprintf("c%dy", c)
			for i := 0; i <= ch.MaxRestarts; i++ {
				m := env.NewMsg(src2, i)
				m.Op = cPanic
				sc.crashN[ch.FullID()]++
				pos := g.IntN(len(sc.clients[c]) + 1)
				op := lcClientOp{kind: 0, target: ch.FullID(), msg: m}
				sc.clients[c] = append(sc.clients[c][:pos], append([]lcClientOp{op}, sc.clients[c][pos:]...)...)
			}
			n2 := 0
			for i := range sc.clients[c] {
				if sc.clients[c][i].kind == 0 && sc.clients[c][i].msg.Src == src2 {
					sc.clients[c][i].msg.N = n2
					n2++
				}
			}
		}
	}
	for range sc.specs {
		if g.Bool(0.6) {
			sc.spawnBy = append(sc.spawnBy, -1)
		} else {
			sc.spawnBy = append(sc.spawnBy, g.IntN(nclients))
		}
	}
	sc.cancelAfter = -1
	if g.Bool(0.25) {
		for _, sp := range sc.specs {
			sp.UserCtx = g.Bool(0.6)
		}
		sc.cancelAfter = []time.Duration{0, 200 * time.Microsecond, 100 * time.Millisecond}[g.IntN(3)]
		rc.Scen("some actors are spawned WithContext; the application cancels that context after %v", sc.cancelAfter)
	}
	for i, sp := range sc.specs {
		rc.Scen("actor %s maxRestarts=%d delay=%v inbox=%d mw=%d children=%d panicInit=%v panicStarted=%v spawnBy=%d crashes=%d",
			sp.FullID(), sp.MaxRestarts, sp.RestartDelay, sp.InboxSize, sp.NMiddleware, len(sp.Children), keys(sp.PanicInit), keys(sp.PanicStarted), sc.spawnBy[i], sc.crashN[sp.FullID()])
	}
	for c, ops := range sc.clients {
		s := ""
		for _, o := range ops {
			switch o.kind {
			case 0:
				s += fmt.Sprintf("send(%s,%s,from=%s) ", o.target, o.msg, pidStr(o.sender))
			case 1:
				s += fmt.Sprintf("stop(%s) ", o.target)
			case 2:
				s += fmt.Sprintf("poison(%s) ", o.target)
			case 3:
				s += "yield "
			}
		}
		rc.Scen("client c%d: %s", c, s)
	}
	return sc
}

func keys(m map[int]bool) []int {
	var out []int
	for i := 0; i < 8; i++ {
		if m[i] {
			out = append(out, i)
		}
	}
	return out
}

func runLifecycle(p lcParams) func(rc *core.RunCtx) {
	return func(rc *core.RunCtx) {
		batch := setKnobs(rc)
		env := NewEnv(rc)
		mon := env.NewMonitor("mon")
		sc := genLifecycle(rc, env, p)
		rc.Scen("batch=%d", batch)
		rc.PostRun = func(res *simrt.Result) {
			if res.Crash != nil && !res.Crash.Harness {
				cl := "process-crash"
				if res.Crash.Exit {
					cl = "process-exit"
				}
				for _, prop := range []string{"C05", "C06", "C09", "C13", "C04", "C07"} {
					if prop == rc.Property {
						rc.Violate(cl+"/"+crashSite(res.Crash), "un-recovered panic in task %q: %s (raised in %s)", res.Crash.Task, core.FirstLine(res.Crash.Value), res.Crash.Origin)
						return
					}
				}
				rc.Block("process crashed: %s", core.FirstLine(res.Crash.Value))
			}
			if res.EndReason == "steps" {
				rc.Block("step budget exhausted (unbounded activity)")
			}
		}
		if sc.cancelAfter >= 0 {
			// the application cancels the context some actors were spawned with
			// (actor.WithContext): not a stop request, nothing about the actor's
			// life cycle may depend on it
			simrt.Go("app-cancels-its-context", func() {
				simrt.Sleep(sc.cancelAfter)
				simrt.Fault("user-context-cancelled")
				env.UserContext()
				env.CancelUserContext()
			})
		}
		for i, sp := range sc.specs {
			if sc.spawnBy[i] == -1 {
				env.Spawn(sp)
			}
		}
		finished := 0
		for c := range sc.clients {
			c := c
			simrt.Go(fmt.Sprintf("client%d", c), func() {
				for i, sp := range sc.specs {
					if sc.spawnBy[i] == c {
						env.Spawn(sp)
					}
				}
				for _, o := range sc.clients[c] {
					switch o.kind {
					case 0:
						env.Send(fmt.Sprintf("c%d", c), o.target, o.msg, o.sender)
					case 1:
						env.watch("stop", fmt.Sprintf("c%d", c), o.target, env.E.Stop(actor.NewPID("local", o.target)))
					case 2:
						env.watch("poison", fmt.Sprintf("c%d", c), o.target, env.E.Poison(actor.NewPID("local", o.target)))
					case 3:
						simrt.Yield(simrt.OpUser)
					}
				}
				finished++
			})
		}
		simrt.WaitQuiet(time.Hour)
		if finished != len(sc.clients) {
			rc.Violate2("C09", "caller-blocked", "%d of %d client tasks finished; blocked: %v", finished, len(sc.clients), simrt.BlockedTasks())
			rc.Violate2("C05", "caller-blocked", "%d of %d client tasks finished; blocked: %v", finished, len(sc.clients), simrt.BlockedTasks())
		}
		// probe sends: after everything is quiet, an unregistered actor must dead-letter
		probes := map[string]*UMsg{}
		for _, id := range env.order {
			in := env.actors[id]
			if in.Spec == nil {
				continue
			}
			if env.E.Registry.GetPID(kindOf(id), idOf(id)) == nil {
				m := env.NewMsg("probe", 0)
				probes[id] = m
				env.Send("probe", id, m, nil)
			}
		}
		simrt.WaitQuiet(time.Hour)
		if p.stopCrash && p.focus != "C06" {
			// only containment is asserted here: the process survives (PostRun),
			// callers return, and a bystander actor still works
			by := &Spec{Kind: "act", ID: "bystander", MaxRestarts: 1, InboxSize: 4, PanicInit: map[int]bool{}, PanicStarted: map[int]bool{}, PanicStopped: map[int]bool{}}
			env.Spawn(by)
			bm := env.NewMsg("probe", 99)
			env.Send("probe", by.FullID(), bm, nil)
			simrt.WaitQuiet(time.Hour)
			ok := false
			for _, d := range env.userDeliveries(by.FullID()) {
				if d.Msg == bm {
					ok = true
				}
			}
			if !ok {
				rc.Violate("bystander-not-served-after-stopped-crash", "after receivers panicked while handling Stopped, a freshly spawned actor no longer receives messages")
			}
			rc.Nontrivial = simrt.FaultCount("actor-crash-in-Stopped") > 0
			return
		}
		lcOracles(rc, env, sc, mon, p, probes)
	}
}

func crashSite(c *simrt.Crash) string {
	s := c.Origin
	if i := lastIndexByte(s, '/'); i >= 0 {
		s = s[i+1:]
	}
	return s
}

func lastIndexByte(s string, b byte) int {
	for i := len(s) - 1; i >= 0; i-- {
		if s[i] == b {
			return i
		}
	}
	return -1
}

type sendRec struct {
	m       *UMsg
	target  string
	callSeq int
	retSeq  int
	from    string
	sender  *actor.PID
}

func lcOracles(rc *core.RunCtx, env *Env, sc *lcScenario, mon *Monitor, p lcParams, probes map[string]*UMsg) {
	// every Stop/Poison request has been acted upon by quiescence: a pill that
	// an actor accepted and then lost (say, across a restart) leaves its caller
	// waiting and the actor alive
	for _, w := range env.Watches {
		if w.DoneSeq == 0 {
			rc.Violate2("C07", "ctx-never-done/lifecycle", "%s(%s) by %s: the context never became done", w.Kind, w.Target, w.By)
			rc.Violate2("C03", "stop-request-never-processed", "%s(%s) by %s was accepted, but at quiescence nothing has acted on it: the actor rests with the request unprocessed", w.Kind, w.Target, w.By)
			rc.Violate2("C05", "stop-request-lost-across-restart", "%s(%s) by %s: the context never became done", w.Kind, w.Target, w.By)
		}
	}
	// index sends
	sends := map[int]*sendRec{}
	for _, e := range env.Evs {
		switch e.Kind {
		case "send":
			if e.Msg != nil {
				sr := &sendRec{m: e.Msg, target: e.B, callSeq: e.Seq, from: e.A}
				if sp, ok := e.Any.(*actor.PID); ok {
					sr.sender = sp
				}
				sends[e.Msg.ID] = sr
			}
		case "send-ret":
			if e.Msg != nil && sends[e.Msg.ID] != nil {
				sends[e.Msg.ID].retSeq = e.Seq
			}
		}
	}
	dead := map[int]int{} // msg id -> number of dead letters
	for _, dl := range mon.DeadLetters() {
		if um, ok := dl.Message.(*UMsg); ok {
			dead[um.ID]++
		}
	}
	restarted := map[string][]int32{}
	maxExceeded := map[string]int{}
	stoppedEv := map[string]int{}
	startedEv := map[string]int{}
	for _, e := range mon.Events {
		switch v := e.Ev.(type) {
		case actor.ActorRestartedEvent:
			restarted[v.PID.ID] = append(restarted[v.PID.ID], v.Restarts)
		case actor.ActorMaxRestartsExceededEvent:
			maxExceeded[v.PID.ID]++
		case actor.ActorStoppedEvent:
			stoppedEv[v.PID.ID]++
		case actor.ActorStartedEvent:
			startedEv[v.PID.ID]++
		}
	}
	stopTargets := map[string]bool{}
	for _, w := range env.Watches {
		stopTargets[w.Target] = true
	}
	// an actor is "disturbed" by stops if it or an ancestor is a stop target
	disturbed := func(id string) bool {
		for cur := id; cur != ""; {
			if stopTargets[cur] {
				return true
			}
			in := env.actors[cur]
			if in == nil {
				return false
			}
			cur = in.Parent
		}
		return false
	}
	crashesOf := func(in *Info) int {
		n := 0
		for _, inc := range in.Incs {
			for _, d := range inc {
				if d.Panicked && d.Kind != dStopped && !(d.Msg != nil && d.Msg.Internal) {
					n++
				}
			}
		}
		return n
	}
	// crashes with *actor.InternalError: restart without using the budget and
	// without ActorRestartedEvent
	internalOf := func(in *Info) int {
		n := 0
		for _, inc := range in.Incs {
			for _, d := range inc {
				if d.Panicked && d.Kind == dUser && d.Msg != nil && d.Msg.Internal {
					n++
				}
			}
		}
		return n
	}
	exceededTree := func(id string) bool {
		for cur := id; cur != ""; {
			in := env.actors[cur]
			if in == nil || in.Spec == nil {
				return false
			}
			if crashesOf(in) > in.Spec.MaxRestarts {
				return true
			}
			cur = in.Parent
		}
		return false
	}

	for _, in := range env.insts {
		id := in.ID
		if in.Spec == nil {
			continue
		}
		latest := env.actors[id] == in
		single := len(env.byID[id]) == 1
		ncrash := crashesOf(in)
		exceeded := ncrash > in.Spec.MaxRestarts
		ended := !latest || exceededTree(id) || disturbed(id)

		// ------------------------------------------------ C04 protocol shape
		for i, inc := range in.Incs {
			if len(inc) == 0 {
				continue
			}
			if inc[0].Kind != dInit {
				rc.Violate2("C04", "first-not-Initialized", "%s inc %d: first delivery is %s; trace: %s", id, i, dNames[inc[0].Kind], traceOf(inc))
			}
			nInit, nStarted, nStopped := 0, 0, 0
			startedAt, stoppedAt := -1, -1
			for j, d := range inc {
				switch d.Kind {
				case dInit:
					nInit++
				case dStarted:
					nStarted++
					startedAt = j
				case dStopped:
					nStopped++
					if stoppedAt < 0 {
						stoppedAt = j
					}
				case dUser:
					if startedAt < 0 {
						rc.Violate2("C04", "user-before-Started", "%s inc %d: %s delivered before Started; trace: %s", id, i, d.Msg, traceOf(inc))
					}
				case dOther:
					rc.Violate2("C07", "pill-or-foreign-visible", "%s inc %d: Receive saw a %s", id, i, d.Other)
				}
			}
			if nInit != 1 {
				rc.Violate2("C04", "Initialized-count", "%s inc %d: %d Initialized deliveries; trace: %s", id, i, nInit, traceOf(inc))
			}
			if nStarted > 1 || (nStarted == 1 && startedAt != 1) {
				rc.Violate2("C04", "Started-position", "%s inc %d: Started delivered %d times / at position %d; trace: %s", id, i, nStarted, startedAt, traceOf(inc))
			}
			if nStopped > 1 {
				rc.Violate2("C04", "Stopped-twice", "%s inc %d: Stopped delivered %d times; trace: %s", id, i, nStopped, traceOf(inc))
			}
			if nStopped >= 1 && stoppedAt != len(inc)-1 {
				rc.Violate2("C04", "delivery-after-Stopped", "%s inc %d: deliveries after Stopped; trace: %s", id, i, traceOf(inc))
				rc.Violate2("C06", "delivery-after-Stopped", "%s inc %d: deliveries after Stopped; trace: %s", id, i, traceOf(inc))
			}
			panicked := false
			for _, d := range inc {
				if d.Panicked && d.Kind != dStopped {
					panicked = true
				}
			}
			incEnded := panicked || i < len(in.Incs)-1 || !latest || (i == len(in.Incs)-1 && ended && env.E.Registry.GetPID(kindOf(id), idOf(id)) == nil)
			if incEnded && nStopped == 0 {
				rc.Violate2("C04", "ended-without-Stopped", "%s inc %d ended (panic/restart/stop) but never got Stopped; trace: %s", id, i, traceOf(inc))
				if panicked {
					rc.Violate2("C05", "failed-incarnation-without-Stopped", "%s inc %d panicked but never got Stopped; trace: %s", id, i, traceOf(inc))
				}
			}
			if !incEnded && nStopped > 0 {
				rc.Violate2("C04", "Stopped-while-alive", "%s inc %d got Stopped although nothing ended it and it is still registered; trace: %s", id, i, traceOf(inc))
			}
			// zombie: deliveries to inc i after inc i+1 was produced
			if i+1 < len(in.Incs) && len(in.Incs[i+1]) > 0 {
				nextStart := in.Incs[i+1][0].Seq
				for _, d := range inc {
					if d.Seq > nextStart {
						rc.Violate2("C04", "old-incarnation-after-new", "%s inc %d got %s after inc %d was initialised", id, i, dNames[d.Kind], i+1)
						if d.Kind == dUser {
							rc.Violate2("C05", "delivered-to-failed-incarnation", "%s: %s went to incarnation %d although incarnation %d had already been initialised", id, d.Msg, i, i+1)
						}
					}
				}
			}
		}
		// spawn returned => Started handled (crash-free spawn of a fresh id)
		if in.spawnRet != 0 && len(in.Incs) > 0 && !in.Spec.PanicInit[0] && !in.Spec.PanicStarted[0] {
			ok := false
			for _, d := range in.Incs[0] {
				if d.Kind == dStarted && d.EndSeq != 0 && d.EndSeq < in.spawnRet {
					ok = true
				}
			}
			if !ok {
				rc.Violate2("C04", "spawn-returned-before-Started", "Spawn(%s) returned at event %d but Started had not been handled; trace: %s", id, in.spawnRet, traceOf(in.Incs[0]))
			}
		}

		// ------------------------------------------------ C13 middleware chain
		for i, inc := range in.Incs {
			for _, d := range inc {
				if msg := checkChain(in.Spec.NMiddleware, d); msg != "" {
					path := dNames[d.Kind]
					if d.Kind == dStopped && i < len(in.Incs) && incPanicked(inc) {
						path = "Stopped-after-crash"
					}
					rc.Violate2("C13", "chain-mismatch/"+path, "%s inc %d %s: %s (chain length %d, saw %v)", id, i, dNames[d.Kind], msg, in.Spec.NMiddleware, d.MW)
				}
			}
		}
		if !latest {
			continue // the per-id checks below run once, on the latest instance
		}
		// ------------------------------------------------ deliveries vs sends
		dels := env.userDeliveries(id)
		count := map[int]int{}
		for _, d := range dels {
			count[d.Msg.ID]++
		}
		live := !ended && single
		for _, s := range sends {
			if s.target != id {
				continue
			}
			n := count[s.m.ID]
			if n > 1 {
				cl := "duplicate-delivery"
				if ncrash > 0 {
					rc.Violate2("C05", cl+"-after-crash", "%s: %s delivered %d times (crashes=%d)", id, s.m, n, ncrash)
					if s.m.Op == cPanic {
						rc.Violate2("C05", "crashing-message-redelivered", "%s: crashing %s delivered %d times", id, s.m, n)
					}
				}
				rc.Violate2("C01", cl, "%s: %s delivered %d times", id, s.m, n)
			}
			if n >= 1 && dead[s.m.ID] > 0 {
				rc.Violate2("C09", "delivered-and-dead-lettered", "%s: %s was delivered and also dead-lettered", id, s.m)
			}
			if n == 0 && dead[s.m.ID] == 0 && live {
				// accepted by a live actor, never delivered
				rc.Violate2("C04", "accepted-message-lost", "%s: %s produced no dead letter and was never delivered (actor live, crashes=%d)", id, s.m, ncrash)
				if ncrash > 0 {
					rc.Violate2("C05", "message-lost-across-restart", "%s: %s was neither delivered nor dead-lettered (crashes=%d within budget %d)", id, s.m, ncrash, in.Spec.MaxRestarts)
					if s.m.Op != cPanic {
						rc.Violate2("C03", "lost-message/after-restart", "%s: %s accepted by a started, not-stopped actor (restarted %d times) but never processed at quiescence", id, s.m, ncrash)
						rc.Violate2("C01", "lost-message/across-restart", "%s: %s (not a crashing message) was neither delivered nor dead-lettered although the actor stayed live (crashes=%d within budget %d)", id, s.m, ncrash, in.Spec.MaxRestarts)
					}
				} else {
					rc.Violate2("C01", "lost-message", "%s: %s was neither delivered nor dead-lettered", id, s.m)
					rc.Violate2("C03", "lost-message", "%s: %s accepted but never processed at quiescence", id, s.m)
				}
			}
		}
		// order: per source, and real-time FIFO across a crash
		lastN := map[string]int{}
		for _, d := range dels {
			if prev, ok := lastN[d.Msg.Src]; ok && d.Msg.N < prev {
				if ncrash > 0 {
					rc.Violate2("C05", "order-broken-across-restart", "%s: %s delivered after a later message of the same sender", id, d.Msg)
					rc.Violate2("C01", "per-sender-order/across-restart", "%s: %s delivered after a later message of the same sender (crashes=%d)", id, d.Msg, ncrash)
				} else {
					rc.Violate2("C01", "per-sender-order", "%s: %s delivered after a later message of the same sender", id, d.Msg)
				}
			}
			if prev, ok := lastN[d.Msg.Src]; !ok || d.Msg.N > prev {
				lastN[d.Msg.Src] = d.Msg.N
			}
			// sender faithful
			if s := sends[d.Msg.ID]; s != nil {
				want := pidStr(s.senderPID(env))
				if got := pidStr(d.Sender); got != want {
					rc.Violate2("C01", "wrong-sender", "%s: %s delivered with sender %s, sent with %s", id, d.Msg, got, want)
				}
			}
		}
		if ncrash > 0 && !exceeded && live {
			// queued-behind-the-crash before sent-after-the-crash
			for _, inc := range in.Incs {
				for _, cd := range inc {
					if !cd.Panicked || cd.Kind != dUser {
						continue
					}
					pos := map[int]int{}
					for k, d := range dels {
						if _, ok := pos[d.Msg.ID]; !ok {
							pos[d.Msg.ID] = k
						}
					}
					for _, s1 := range sends {
						if s1.target != id || s1.retSeq == 0 || s1.retSeq > cd.Seq {
							continue
						}
						p1, ok1 := pos[s1.m.ID]
						if !ok1 {
							continue
						}
						for _, s2 := range sends {
							if s2.target != id || s2.callSeq < cd.EndSeq || cd.EndSeq == 0 {
								continue
							}
							if p2, ok2 := pos[s2.m.ID]; ok2 && p2 < p1 {
								rc.Violate2("C05", "later-send-overtook-buffered", "%s: %s (queued before the crash on %s) delivered after %s (sent after the crash)", id, s1.m, cd.Msg, s2.m)
							}
						}
					}
				}
			}
		}

		// ------------------------------------------------ C05 restart events
		if ncrash > 0 && single {
			rs := restarted[id]
			wantRestarts := ncrash
			if exceeded {
				wantRestarts = in.Spec.MaxRestarts
			}
			if !disturbed(id) && !exceededTree(in.Parent) {
				if len(rs) != wantRestarts {
					if exceeded {
						rc.Violate2("C06", "restart-count", "%s: %d ActorRestartedEvents, budget %d, crashes %d", id, len(rs), in.Spec.MaxRestarts, ncrash)
					} else {
						rc.Violate2("C05", "restart-event-count", "%s: %d crashes but %d ActorRestartedEvents", id, ncrash, len(rs))
					}
				}
				for k, r := range rs {
					if int(r) != k+1 {
						rc.Violate2("C05", "restart-counter", "%s: ActorRestartedEvent #%d carries Restarts=%d", id, k+1, r)
					}
				}
				if !exceeded {
					// every crash is followed by a fresh initialised incarnation
					if len(in.Incs) != ncrash+internalOf(in)+1 {
						rc.Violate2("C05", "incarnation-count", "%s: %d crashes but %d incarnations", id, ncrash+internalOf(in), len(in.Incs))
					}
					if last := in.Incs[len(in.Incs)-1]; len(last) < 2 || last[0].Kind != dInit || last[1].Kind != dStarted {
						rc.Violate2("C05", "restarted-incarnation-not-started", "%s: last incarnation trace: %s", id, traceOf(last))
					}
				}
			}
		}
		// ------------------------------------------------ C12 lifecycle events published for every occurrence
		if single {
			nStartedDel := 0
			for _, inc := range in.Incs {
				for _, d := range inc {
					if d.Kind == dStarted && d.EndSeq != 0 && !d.Panicked {
						nStartedDel++
					}
				}
			}
			if startedEv[id] != nStartedDel {
				rc.Violate2("C12", "lifecycle-event-missing/started", "%s: %d Started deliveries completed but %d ActorStartedEvents", id, nStartedDel, startedEv[id])
			}
			gone := env.E.Registry.GetPID(kindOf(id), idOf(id)) == nil
			wantStopped := 0
			if gone {
				wantStopped = 1
			}
			if stoppedEv[id] != wantStopped {
				rc.Violate2("C12", "lifecycle-event-missing/stopped", "%s: unregistered=%v but %d ActorStoppedEvents", id, gone, stoppedEv[id])
			}
			if !exceeded && !disturbed(id) && !exceededTree(in.Parent) && len(restarted[id]) != ncrash {
				rc.Violate2("C12", "lifecycle-event-missing/restarted", "%s: %d crashes within budget but %d ActorRestartedEvents", id, ncrash, len(restarted[id]))
			}
		}
		// ------------------------------------------------ C06 budget
		if single && int32(len(restarted[id])) > int32(in.Spec.MaxRestarts) {
			rc.Violate2("C06", "restarted-beyond-budget", "%s: %d ActorRestartedEvents with MaxRestarts=%d", id, len(restarted[id]), in.Spec.MaxRestarts)
		}
		if exceeded && single && !disturbed(id) && !exceededTree(in.Parent) {
			if maxExceeded[id] != 1 {
				rc.Violate2("C06", "max-restarts-event-count", "%s: %d ActorMaxRestartsExceededEvents (crashes=%d, budget=%d)", id, maxExceeded[id], ncrash, in.Spec.MaxRestarts)
			}
			if env.E.Registry.GetPID(kindOf(id), idOf(id)) != nil {
				rc.Violate2("C06", "still-registered", "%s exceeded its restart budget but is still registered", id)
			}
			for _, ch := range in.Spec.Children {
				cin := env.actors[ch.FullID()]
				if env.E.Registry.GetPID(kindOf(ch.FullID()), idOf(ch.FullID())) != nil {
					rc.Violate2("C06", "child-still-registered", "child %s of %s (budget exceeded) is still registered", ch.FullID(), id)
				}
				if cin != nil && len(cin.Incs) > 0 {
					last := cin.Incs[len(cin.Incs)-1]
					if len(last) == 0 || last[len(last)-1].Kind != dStopped {
						rc.Violate2("C06", "child-not-stopped", "child %s of %s (budget exceeded) did not get Stopped; trace: %s", ch.FullID(), id, traceOf(last))
					}
				}
			}
		} else if !exceeded && single && maxExceeded[id] > 0 {
			rc.Violate2("C06", "max-restarts-event-early", "%s: ActorMaxRestartsExceededEvent after %d crashes with budget %d", id, ncrash, in.Spec.MaxRestarts)
		}
		// probe send to an unregistered actor must dead-letter exactly once and reach nobody
		if pm := probes[id]; pm != nil {
			if dead[pm.ID] != 1 {
				rc.Violate2("C06", "send-after-stop-not-dead-lettered", "%s is unregistered but a later send produced %d dead letters", id, dead[pm.ID])
				rc.Violate2("C09", "dead-letter-count", "send to unregistered %s produced %d DeadLetterEvents", id, dead[pm.ID])
			}
			if count[pm.ID] > 0 {
				rc.Violate2("C06", "delivery-after-unregistered", "%s is unregistered but received %s", id, pm)
			}
		}
	}
	for _, r := range simrt.Races() {
		rc.Violate2("C02", "receiver-state-race", "%s", r)
		break
	}
	rc.Nontrivial = len(env.Dels) > 3 && (len(sc.clients) > 1 || len(sc.crashN) > 0)
	for _, in := range env.insts {
		if in.Spec != nil && crashesOf(in) > 0 {
			simrt.Probe("actor-restarted-or-ended-by-crash")
			if crashesOf(in) > in.Spec.MaxRestarts {
				simrt.Probe("restart-budget-exceeded")
			}
		}
	}
}

func incPanicked(inc []*Delivery) bool {
	for _, d := range inc {
		if d.Panicked && d.Kind != dStopped {
			return true
		}
	}
	return false
}

func (s *sendRec) senderPID(env *Env) *actor.PID {
	return s.sender
}

// checkChain compares the middleware trace around one delivery with the
// configured chain: in0 .. in(n-1) recv out(n-1) .. out0.
func checkChain(n int, d *Delivery) string {
	want := make([]string, 0, 2*n+1)
	for i := 0; i < n; i++ {
		want = append(want, fmt.Sprintf("in%d", i))
	}
	want = append(want, "recv")
	if !d.Panicked {
		for i := n - 1; i >= 0; i-- {
			want = append(want, fmt.Sprintf("out%d", i))
		}
	}
	got := d.MW
	if d.Panicked {
		// outs are logged while the panic unwinds; ignore them
		var g []string
		for _, x := range got {
			if len(x) < 3 || x[:3] != "out" {
				g = append(g, x)
			}
		}
		got = g
	}
	if len(got) != len(want) {
		return fmt.Sprintf("expected %v", want)
	}
	tag := dNames[d.Kind]
	if d.Msg != nil {
		tag = fmt.Sprintf("m%d", d.Msg.ID)
	}
	for i := range want {
		g := got[i]
		if i < n {
			// "inK:tag:sender"
			exp := fmt.Sprintf("%s:%s:%s", want[i], tag, pidStr(d.Sender))
			if g != exp {
				return fmt.Sprintf("position %d: expected %s", i, exp)
			}
			continue
		}
		if g != want[i] {
			return fmt.Sprintf("position %d: expected %s", i, want[i])
		}
	}
	return ""
}

func cfgEngine(cfg *simrt.Config, tier string) {
	cfg.HB = true
	cfg.MaxSteps = 300_000
}

// cfgEngineSkip additionally lets the clock jump while tasks are runnable
// (everything stalls while the restart delay passes).
func cfgEngineSkip(cfg *simrt.Config, tier string) {
	cfgEngine(cfg, tier)
	cfg.TimeSkip = true
}

func init() {
	base := "one real Engine; 1-3 scripted actors (optional children, middleware chains 0-3, inbox sizes {1,2,4,1024}, batch knob {1,2,3,5,4096}, MaxRestarts 0-3, RestartDelay {0,1ms,500ms} on the simulated clock); 1-3 concurrent client tasks sending uniquely numbered messages with senders {nil,2 PIDs} from before the actor is spawned; event-stream monitor; "
	core.Register(&core.Profile{Property: "C04", Name: "lifecycle", Weight: 4, Cfg: cfgEngine,
		Run: runLifecycle(lcParams{focus: "C04", stops: true, crashes: true, lifeCrashes: true, children: true}),
		Doc: base + "crashes at Initialized/Started/user messages, stop/poison callers; oracle: per-incarnation trace matches Initialized (Started user*)? Stopped?, Stopped exactly once iff ended and last, no zombie incarnation, accepted messages delivered after Started, Spawn returns after Started",
		Faults: []string{"actor-crash-in-Initialized", "actor-crash-in-Started", "actor-crash-in-Receive", "concurrent stop/poison"}})
	core.Register(&core.Profile{Property: "C04", Name: "lifecycle-budget", Weight: 2, Cfg: cfgEngine,
		Run: runLifecycle(lcParams{focus: "C04", stops: true, crashes: true, lifeCrashes: true, children: true, exceed: true}),
		Doc: base + "as 'lifecycle', with one actor driven beyond its restart budget (the incarnation that ends by exhausting the budget must also get exactly one final Stopped)",
		Faults: []string{"actor-crash-in-Initialized", "actor-crash-in-Started", "actor-crash-in-Receive", "restart-budget-exceeded", "concurrent stop/poison"}})
	core.Register(&core.Profile{Property: "C04", Name: "internal-error", Weight: 1, Cfg: cfgEngine,
		Run: runLifecycle(lcParams{focus: "C04", stops: true, crashes: true, lifeCrashes: true, internal: true}),
		Doc: base + "as 'lifecycle', with receivers that panic with *actor.InternalError (the restart path that bypasses the budget): that incarnation too gets exactly one final Stopped before the next one is produced",
		Faults: []string{"actor-crash-InternalError", "actor-crash-in-Initialized", "actor-crash-in-Started", "actor-crash-in-Receive", "concurrent stop/poison"}})
	core.Register(&core.Profile{Property: "C05", Name: "restart-internal-error", Weight: 1, Cfg: cfgEngineSkip,
		Run: runLifecycle(lcParams{focus: "C05", crashes: true, lifeCrashes: true, internal: true}),
		Doc: base + "as 'restart', with crashes carrying *actor.InternalError mixed in: fresh receiver, buffered messages delivered exactly once, no ActorRestartedEvent and no budget used for those",
		Faults: []string{"actor-crash-InternalError", "actor-crash-in-Initialized", "actor-crash-in-Started", "actor-crash-in-Receive"}})
	core.Register(&core.Profile{Property: "C05", Name: "restart", Weight: 4, Cfg: cfgEngineSkip,
		Run: runLifecycle(lcParams{focus: "C05", crashes: true, lifeCrashes: true}),
		Doc: base + "crashes within the restart budget at every batch position (batch knob) and in Initialized/Started, senders continuing during the restart delay; oracle: no un-recovered panic, Stopped to the failed incarnation, one ActorRestartedEvent per crash with Restarts=1..n, fresh Initialized+Started, every accepted message delivered exactly once in per-sender order, queued-before-crash ahead of sent-after-crash, crashing message not redelivered",
		Faults: []string{"actor-crash-in-Initialized", "actor-crash-in-Started", "actor-crash-in-Receive"}})
	core.Register(&core.Profile{Property: "C05", Name: "restart-with-poison", Weight: 2, Cfg: cfgEngine,
		Run: runLifecycle(lcParams{focus: "C05", crashes: true, lifeCrashes: true, stops: true}),
		Doc: base + "as 'restart', with Stop/Poison callers: crashes while the batch behind a poison pill is drained, pills in the restart buffer; oracle (the parts that hold whether or not the actor is being stopped): no un-recovered panic, no message delivered twice, the crashing message never redelivered, Stopped to every failed incarnation",
		Faults: []string{"actor-crash-in-Initialized", "actor-crash-in-Started", "actor-crash-in-Receive", "concurrent stop/poison"}})
	core.Register(&core.Profile{Property: "C05", Name: "crash-in-Stopped", Weight: 1, Cfg: cfgEngine,
		Run: runLifecycle(lcParams{focus: "C05", crashes: true, stops: true, stopCrash: true, internal: true}),
		Doc: base + "receivers that panic while handling Stopped (after a crash, on stop, on poison); oracle: containment only - no un-recovered panic, every caller returns, a bystander actor is still served",
		Faults: []string{"actor-crash-in-Stopped", "actor-crash-in-Receive", "concurrent stop/poison"}})
	core.Register(&core.Profile{Property: "C06", Name: "budget", Weight: 4, Cfg: cfgEngine,
		Run: runLifecycle(lcParams{focus: "C06", crashes: true, lifeCrashes: true, exceed: true, children: true}),
		Doc: base + "one actor driven beyond MaxRestarts (first batch / replay of the restart buffer / Started); oracle: restarts == budget, exactly one ActorMaxRestartsExceededEvent, unregistered, children stopped and unregistered, later sends dead-letter, no delivery after Stopped, process alive",
		Faults: []string{"actor-crash-in-Initialized", "actor-crash-in-Started", "actor-crash-in-Receive", "restart-budget-exceeded"}})
	core.Register(&core.Profile{Property: "C06", Name: "budget-internal-error", Weight: 1, Cfg: cfgEngine,
		Run: runLifecycle(lcParams{focus: "C06", crashes: true, lifeCrashes: true, exceed: true, internal: true}),
		Doc: base + "as 'budget', with restarts caused by *actor.InternalError mixed in at any point (they do not count, and they must not disturb the count: the budget-exhausting ordinary crash still ends the actor)",
		Faults: []string{"actor-crash-InternalError", "actor-crash-in-Initialized", "actor-crash-in-Started", "actor-crash-in-Receive", "restart-budget-exceeded"}})
	core.Register(&core.Profile{Property: "C06", Name: "budget-stopped-panics", Weight: 1, Cfg: cfgEngine,
		Run: runLifecycle(lcParams{focus: "C06", crashes: true, lifeCrashes: true, exceed: true, stopCrash: true}),
		Doc: base + "as 'budget', with receivers that also panic while handling Stopped - in particular the final Stopped after the budget is exhausted: the actor is still unregistered, its events are published, later sends dead-letter",
		Faults: []string{"actor-crash-in-Stopped", "actor-crash-in-Initialized", "actor-crash-in-Started", "actor-crash-in-Receive", "restart-budget-exceeded"}})
	core.Register(&core.Profile{Property: "C06", Name: "budget-with-poison", Weight: 2, Cfg: cfgEngine,
		Run: runLifecycle(lcParams{focus: "C06", crashes: true, lifeCrashes: true, exceed: true, stops: true}),
		Doc: base + "as 'budget', with Stop/Poison callers: the budget-exhausting crash may happen while the batch behind a poison pill is drained or on a message replayed from the restart buffer next to a pill; oracle: the clauses of 'budget' that hold whether or not a stop is in progress, and the process survives",
		Faults: []string{"actor-crash-in-Initialized", "actor-crash-in-Started", "actor-crash-in-Receive", "restart-budget-exceeded", "concurrent stop/poison"}})
	core.Register(&core.Profile{Property: "C13", Name: "middleware", Weight: 4, Cfg: cfgEngine,
		Run: runLifecycle(lcParams{focus: "C13", stops: true, crashes: true, lifeCrashes: true, exceed: false, mw: true, children: true, internal: true}),
		Doc: base + "chains of 1-3 recording middlewares on parents and children; chains given as one option, as two options, or as a base slice shared by several actors (spare capacity; overwritten by the caller after the spawns) plus an own tail; all delivery paths (spawn, user, stop, poison, crash, restart, InternalError restart); oracle: no middleware configured for another actor ever runs in this one's chain, every delivery is nested in exactly the configured chain in order and each middleware sees the same message and sender as the receiver",
		Faults: []string{"actor-crash-in-Initialized", "actor-crash-in-Started", "actor-crash-in-Receive", "concurrent stop/poison"}})
	core.Register(&core.Profile{Property: "C13", Name: "middleware-budget", Weight: 1, Cfg: cfgEngine,
		Run: runLifecycle(lcParams{focus: "C13", crashes: true, lifeCrashes: true, exceed: true, mw: true}),
		Doc: base + "as above with the restart budget exceeded (Stopped delivered on the max-restarts path)"})
	core.Register(&core.Profile{Property: "C01", Name: "engine", Weight: 2, Cfg: cfgEngine,
		Run: runLifecycle(lcParams{focus: "C01"}),
		Doc: base + "stop-free and crash-free; sends race Spawn; oracle: each send is delivered exactly once with its sender or dead-lettered (before registration), per-sender order"})
	core.Register(&core.Profile{Property: "C01", Name: "engine-restarts", Weight: 1, Cfg: cfgEngine,
		Run: runLifecycle(lcParams{focus: "C01", crashes: true, lifeCrashes: true}),
		Doc: base + "stop-free, with crashes within the restart budget on some messages (backlog larger than the batch, senders continuing through the restart): the messages the actor does not crash on are still delivered exactly once, with their sender, in per-sender order",
		Faults: []string{"actor-crash-in-Receive"}})
	core.Register(&core.Profile{Property: "C01", Name: "engine-restarts-poison", Weight: 1, Cfg: cfgEngine,
		Run: runLifecycle(lcParams{focus: "C01", crashes: true, lifeCrashes: true, stops: true}),
		Doc: base + "as 'engine-restarts', with Stop/Poison callers (crashes while the batch behind a poison pill is drained): whatever is delivered is delivered once, with its sender, in per-sender order",
		Faults: []string{"actor-crash-in-Initialized", "actor-crash-in-Started", "actor-crash-in-Receive", "concurrent stop/poison"}})
	core.Register(&core.Profile{Property: "C02", Name: "engine", Weight: 2, Cfg: cfgEngine,
		Run: runLifecycle(lcParams{focus: "C02", stops: true, crashes: true, lifeCrashes: true, children: true}),
		Doc: base + "with stop/poison callers and crash/restart; oracle: Receive intervals of one actor never overlap and each access to actor state is ordered after the previous one (vector clocks)"})
	core.Register(&core.Profile{Property: "C02", Name: "engine-budget", Weight: 1, Cfg: cfgEngine,
		Run: runLifecycle(lcParams{focus: "C02", stops: true, crashes: true, lifeCrashes: true, exceed: true}),
		Doc: base + "as 'engine', with one actor driven beyond its restart budget (also while the restart buffer is replayed, with a backlog larger than the batch): no second worker may appear for an actor that is going down"})
	core.Register(&core.Profile{Property: "C03", Name: "engine-restarts", Weight: 1, Cfg: cfgEngine,
		Run: runLifecycle(lcParams{focus: "C03", crashes: true, lifeCrashes: true}),
		Doc: base + "stop-free, with crashes within the restart budget in Initialized/Started (also of the very first incarnation, restarted from the spawning goroutine before the inbox was opened) and on messages; oracle: at quiescence every message accepted by the started, not-stopped actor has been processed",
		Faults: []string{"actor-crash-in-Initialized", "actor-crash-in-Started", "actor-crash-in-Receive"}})
	core.Register(&core.Profile{Property: "C03", Name: "engine-restarts-poison", Weight: 1, Cfg: cfgEngine,
		Run: runLifecycle(lcParams{focus: "C03", crashes: true, lifeCrashes: true, stops: true}),
		Doc: base + "as 'engine-restarts', with Stop/Poison callers: at quiescence every request the actor accepted - pills included, also across restarts - has been acted upon",
		Faults: []string{"actor-crash-in-Initialized", "actor-crash-in-Started", "actor-crash-in-Receive", "concurrent stop/poison"}})
	core.Register(&core.Profile{Property: "C03", Name: "engine", Weight: 1, Cfg: cfgEngine,
		Run: runLifecycle(lcParams{focus: "C03"}),
		Doc: base + "stop-free and crash-free; oracle: at quiescence every send that produced no dead letter has been delivered"})
}
