package engine

import (
	"fmt"
	"sort"
	"strings"
	"time"

	"github.com/anthdm/hollywood/actor"

	"verif/harness/core"
	"verif/sim/simrt"
)

// stop scenario: a supervision tree (depth 1-3, fan-out 1-3), concurrent
// stop/poison callers (clients, and actors via messages), senders with
// numbered messages, optional crashes while draining, unknown and already
// stopped targets. Serves C07 and C08.

type stParams struct {
	focus string
}

type stOp struct {
	kind   int // 0 send, 1 stop, 2 poison, 3 yield, 4 actor-issued stop/poison (message to issuer)
	target string
	msg    *UMsg
}

func genTree(g simrt.Gen, maxDepth int) (root *Spec, all []*Spec, parentOf map[string]string) {
	parentOf = map[string]string{}
	var mk func(kind, id string, depth int) *Spec
	mk = func(kind, id string, depth int) *Spec {
		sp := &Spec{Kind: kind, ID: id, MaxRestarts: g.Range(0, 2), InboxSize: []int{1024, 1, 2, 4}[g.IntN(4)],
			PanicInit: map[int]bool{}, PanicStarted: map[int]bool{}, PanicStopped: map[int]bool{}, SlowStarted: g.Bool(0.2)}
		if g.Bool(0.25) {
			sp.NMiddleware = g.Range(1, 2)
		}
		all = append(all, sp)
		if depth < maxDepth {
			n := g.Pick(2, 4, 3, 1) // 0..3 children
			if depth == 0 && n == 0 {
				n = 1
			}
			for c := 0; c < n; c++ {
				ch := mk(sp.FullID()+"/k", fmt.Sprintf("c%d", c), depth+1)
				parentOf[ch.FullID()] = sp.FullID()
				sp.Children = append(sp.Children, ch)
			}
		}
		return sp
	}
	root = mk("tree", "r", 0)
	return
}

func runStop(p stParams) func(rc *core.RunCtx) {
	return func(rc *core.RunCtx) {
		batch := setKnobs(rc)
		g := simrt.G()
		env := NewEnv(rc)
		mon := env.NewMonitor("mon")
		maxDepth := g.Range(1, 3)
		if p.focus == "C07" {
			maxDepth = g.Range(0, 1)
		}
		root, all, parentOf := genTree(g, maxDepth)
		if p.focus == "C08" {
			// children that die at birth: the receiver panics in Started with no
			// restart budget, so the child lives and dies inside SpawnChild
			for _, sp := range all {
				if sp != root && len(sp.Children) == 0 && g.Bool(0.1) {
					sp.MaxRestarts = 0
					sp.PanicStarted[0] = true
					sp.NMiddleware = 0
				}
			}
			// actors that panic while handling Stopped: they are gone all the same
			// (unregistered, off their parent's list)
			for _, sp := range all {
				if g.Bool(0.1) {
					for i := 0; i < 4; i++ {
						sp.PanicStopped[i] = true
					}
				}
			}
		}
		ids := []string{}
		for _, sp := range all {
			ids = append(ids, sp.FullID())
		}
		userCtx := g.Bool(0.3)
		if userCtx {
			for _, sp := range all {
				sp.UserCtx = g.Bool(0.6)
			}
		}
		rc.Scen("tree (batch=%d, userctx=%v): %s", batch, userCtx, treeStr(root))
		// crashes only on childless actors: a restarted parent re-creates stopped
		// children, which would blur who is "the" actor behind an id
		crashAllowed := p.focus == "C07" && maxDepth == 0 && g.Bool(0.6)
		if crashAllowed && g.Bool(0.4) {
			// a restarted incarnation (reached after a crash on a message, possibly
			// with a pill in the restart buffer) fails again while starting
			at := g.Range(1, 2)
			if g.Bool(0.5) {
				root.PanicStarted[at] = true
			} else {
				root.PanicInit[at] = true
			}
			rc.Scen("%s: panicInit=%v panicStarted=%v", root.FullID(), keys(root.PanicInit), keys(root.PanicStarted))
		}

		// client scripts
		nclients := 1 + g.Pick(2, 4, 3)
		maxOps := 6
		if rc.Tier == "thorough" {
			maxOps = 12
		}
		scripts := make([][]stOp, nclients)
		extraTargets := []string{"ghost/x"} // never spawned
		nstops := 0
		for c := range scripts {
			n := g.Range(1, maxOps)
			per := map[string]int{}
			for i := 0; i < n; i++ {
				tgt := ids[g.IntN(len(ids))]
				if g.Bool(0.08) {
					tgt = extraTargets[0]
				}
				switch g.Pick(6, 2, 3, 1, 2) {
				case 0:
					m := env.NewMsg(fmt.Sprintf("c%d", c), per[tgt])
					per[tgt]++
					if crashAllowed && g.Bool(0.15) {
						m.Op = cPanic
					} else if p.focus == "C08" && g.Bool(0.12) {
						// in trees only actors without restart budget crash: they go
						// down through the max-restarts path (children first) and
						// nothing is re-created under an existing id
						for _, sp := range all {
							if sp.FullID() == tgt && sp.MaxRestarts == 0 {
								m.Op = cPanic
							}
						}
					}
					scripts[c] = append(scripts[c], stOp{kind: 0, target: tgt, msg: m})
				case 1:
					scripts[c] = append(scripts[c], stOp{kind: 1, target: tgt})
					nstops++
				case 2:
					scripts[c] = append(scripts[c], stOp{kind: 2, target: tgt})
					nstops++
				case 3:
					if p.focus == "C08" {
						// ask a node for Children()/Parent() while shutdowns are in progress
						m := env.NewMsg(fmt.Sprintf("c%d", c), per[tgt])
						per[tgt]++
						m.Op = cReport
						scripts[c] = append(scripts[c], stOp{kind: 0, target: tgt, msg: m})
					} else {
						scripts[c] = append(scripts[c], stOp{kind: 3})
					}
				case 4:
					// an actor stops/poisons another one (or itself)
					issuer := ids[g.IntN(len(ids))]
					m := env.NewMsg(fmt.Sprintf("c%d", c), per[issuer])
					per[issuer]++
					m.Op = cPoison
					if g.Bool(0.4) {
						m.Op = cStop
					}
					m.Name = tgt
					scripts[c] = append(scripts[c], stOp{kind: 0, target: issuer, msg: m})
					nstops++
				}
			}
		}
		if nstops == 0 {
			scripts[0] = append(scripts[0], stOp{kind: 2, target: ids[g.IntN(len(ids))]})
		}
		for c, ops := range scripts {
			var sb strings.Builder
			for _, o := range ops {
				switch o.kind {
				case 0:
					fmt.Fprintf(&sb, "send(%s,%s) ", o.target, o.msg)
				case 1:
					fmt.Fprintf(&sb, "stop(%s) ", o.target)
				case 2:
					fmt.Fprintf(&sb, "poison(%s) ", o.target)
				case 3:
					sb.WriteString("yield ")
				}
			}
			rc.Scen("client c%d: %s", c, sb.String())
		}
		rc.PostRun = func(res *simrt.Result) {
			if res.Crash != nil && !res.Crash.Harness {
				rc.Violate2("C07", "process-crash/"+crashSite(res.Crash), "un-recovered panic in task %q: %s (raised in %s)", res.Crash.Task, core.FirstLine(res.Crash.Value), res.Crash.Origin)
				rc.Violate2("C08", "process-crash/"+crashSite(res.Crash), "un-recovered panic in task %q: %s (raised in %s)", res.Crash.Task, core.FirstLine(res.Crash.Value), res.Crash.Origin)
			}
			if res.EndReason == "steps" {
				rc.Block("step budget exhausted")
			}
		}

		// phase 1: build the tree, let it settle, ask every node for a report.
		// In "early" runs (single actor) the clients start while the actor is
		// still being spawned: what they send reaches an inbox that is not yet
		// started (or nobody); their Stop/Poison calls wait until it is registered.
		early := p.focus == "C07" && maxDepth == 0 && g.Bool(0.3)
		waitRegistered := func() {}
		if early {
			rc.Scen("clients start while %s is being spawned", root.FullID())
			simrt.Go("spawner", func() { env.Spawn(root) })
			waitRegistered = func() {
				// the Producer runs right after the id was entered into the registry
				simrt.Block("root-registered", func() bool { return env.actors[root.FullID()] != nil })
			}
		} else {
			env.Spawn(root)
			simrt.WaitQuiet(time.Hour)
			for _, id := range ids {
				m := env.NewMsg("rep1", 0)
				m.Op = cReport
				env.Send("rep1", id, m, nil)
			}
			simrt.WaitQuiet(time.Hour)
		}
		phase2 := env.tick()

		// phase 2: concurrent stops, poisons, sends
		if userCtx {
			// the application cancels its own context at some point: that is not a
			// stop request, and it must not loosen any shutdown guarantee
			simrt.Go("app-cancels-its-context", func() {
				for i := simrt.IntN(30); i > 0; i-- {
					simrt.Yield(simrt.OpUser)
				}
				simrt.Fault("user-context-cancelled")
				env.UserContext()
				env.CancelUserContext()
			})
		}
		finished := 0
		for c := range scripts {
			c := c
			simrt.Go(fmt.Sprintf("client%d", c), func() {
				for _, o := range scripts[c] {
					switch o.kind {
					case 0:
						env.Send(fmt.Sprintf("c%d", c), o.target, o.msg, nil)
					case 1:
						waitRegistered()
						env.watchCall("stop", fmt.Sprintf("c%d", c), o.target)
					case 2:
						waitRegistered()
						env.watchCall("poison", fmt.Sprintf("c%d", c), o.target)
					case 3:
						simrt.Yield(simrt.OpUser)
					}
				}
				finished++
			})
		}
		simrt.WaitQuiet(time.Hour)
		phase3 := env.tick()
		// phase 3: reports from the survivors, probes to the stopped ones
		probes := map[string]*UMsg{}
		for _, id := range ids {
			if env.E.Registry.GetPID(kindOf(id), idOf(id)) != nil {
				m := env.NewMsg("rep2", 0)
				m.Op = cReport
				env.Send("rep2", id, m, nil)
			} else {
				m := env.NewMsg("probe", 0)
				probes[id] = m
				env.Send("probe", id, m, nil)
			}
		}
		// a late stop and poison of something already stopped / unknown must complete at once
		var late []*Watch
		for _, id := range ids {
			if env.E.Registry.GetPID(kindOf(id), idOf(id)) == nil {
				late = append(late, env.watchCall("poison", "late", id), env.watchCall("stop", "late", id))
				break
			}
		}
		late = append(late, env.watchCall("poison", "late", "ghost/y"))
		simrt.WaitQuiet(time.Hour)

		if finished != nclients {
			rc.Violate2("C09", "caller-blocked", "%d of %d client tasks finished; blocked: %v", finished, nclients, simrt.BlockedTasks())
		}
		stopOracles(rc, env, mon, all, parentOf, phase2, phase3, probes, late)
		rc.Nontrivial = len(env.Watches) > len(late) && len(all) > 0
	}
}

// watchCall logs the call before making it, then watches the context.
func (env *Env) watchCall(kind, by, target string) *Watch {
	simrt.Ev("%s-call by=%s target=%s", kind, by, target)
	call := env.tick()
	var ctx interface{ Done() <-chan struct{} }
	if kind == "stop" {
		ctx = env.E.Stop(actor.NewPID("local", target))
	} else {
		ctx = env.E.Poison(actor.NewPID("local", target))
	}
	w := env.watch(kind, by, target, ctx)
	w.CallSeq = call
	return w
}

func treeStr(sp *Spec) string {
	s := fmt.Sprintf("%s[r=%d,in=%d]", sp.FullID(), sp.MaxRestarts, sp.InboxSize)
	if sp.UserCtx {
		s = fmt.Sprintf("%s[r=%d,in=%d,ctx]", sp.FullID(), sp.MaxRestarts, sp.InboxSize)
	}
	if sp.PanicStarted[0] {
		s += "{dies-at-birth}"
	}
	if len(sp.Children) > 0 {
		var cs []string
		for _, c := range sp.Children {
			cs = append(cs, treeStr(c))
		}
		s += "{" + strings.Join(cs, " ") + "}"
	}
	return s
}

func stopOracles(rc *core.RunCtx, env *Env, mon *Monitor, all []*Spec, parentOf map[string]string, phase2, phase3 int, probes map[string]*UMsg, late []*Watch) {
	isLate := map[*Watch]bool{}
	for _, w := range late {
		isLate[w] = true
	}
	known := map[string]bool{}
	for _, sp := range all {
		known[sp.FullID()] = true
	}
	ancestors := func(id string) []string {
		var out []string
		for cur := parentOf[id]; cur != ""; cur = parentOf[cur] {
			out = append(out, cur)
		}
		return out
	}
	// stop requests (explicit) per target, by kind
	reqs := map[string][]*Watch{}
	for _, w := range env.Watches {
		if !isLate[w] {
			reqs[w.Target] = append(reqs[w.Target], w)
		}
	}
	// number of pills an actor can receive: explicit requests for it plus one
	// from each ancestor that shuts down (cleanup poisons the children)
	pillsFor := func(id string) int {
		n := len(reqs[id])
		for _, a := range ancestors(id) {
			if len(reqs[a]) > 0 {
				n++
				break
			}
		}
		return n
	}
	pillsInSubtree := func(id string) int {
		max := 0
		for _, sp := range all {
			x := sp.FullID()
			if x == id || strings.HasPrefix(x, id+"/") {
				if p := pillsFor(x); p > max {
					max = p
				}
			}
		}
		return max
	}
	stoppedDel := func(id string) *Delivery {
		var last *Delivery
		for _, in := range env.byID[id] {
			for _, inc := range in.Incs {
				for _, d := range inc {
					if d.Kind == dStopped {
						last = d
					}
				}
			}
		}
		return last
	}
	crashed := func(id string) int {
		n := 0
		for _, in := range env.byID[id] {
			for _, inc := range in.Incs {
				for _, d := range inc {
					if d.Panicked {
						n++
					}
				}
			}
		}
		return n
	}
	hasStopReq := func(id string) bool { // a non-graceful stop may hit id (directly or via an ancestor)
		for _, x := range append([]string{id}, ancestors(id)...) {
			for _, w := range reqs[x] {
				if w.Kind == "stop" {
					return true
				}
			}
		}
		return false
	}
	sends := map[int]*sendRec{}
	for _, e := range env.Evs {
		switch e.Kind {
		case "send":
			if e.Msg != nil {
				sends[e.Msg.ID] = &sendRec{m: e.Msg, target: e.B, callSeq: e.Seq, from: e.A}
			}
		case "send-ret":
			if e.Msg != nil && sends[e.Msg.ID] != nil {
				sends[e.Msg.ID].retSeq = e.Seq
			}
		}
	}
	dead := map[int]int{}
	for _, dl := range mon.DeadLetters() {
		if um, ok := dl.Message.(*UMsg); ok {
			dead[um.ID]++
		}
	}
	delivered := map[int]*Delivery{}
	for _, d := range env.Dels {
		if d.Kind == dUser {
			if delivered[d.Msg.ID] == nil {
				delivered[d.Msg.ID] = d
			}
		}
		if d.Kind == dOther {
			rc.Violate2("C07", "pill-or-foreign-visible", "%s: Receive saw a %s", d.Actor, d.Other)
		}
	}

	// ------------------------------------------------------------ C07
	for _, w := range env.Watches {
		feat := "single-pill"
		if !known[w.Target] {
			feat = "unknown-target"
		} else if isLate[w] {
			feat = "already-stopped"
		} else if pillsInSubtree(w.Target) > 1 {
			feat = "several-pills"
		}
		if crashed(w.Target) > 0 {
			feat += "+crash"
		}
		if w.DoneSeq == 0 {
			rc.Violate2("C07", "ctx-never-done/"+feat, "%s(%s) by %s: the returned context is still not done at quiescence (pills that can reach the subtree: %d, stop/poison calls on it: %d)", w.Kind, w.Target, w.By, pillsInSubtree(w.Target), len(reqs[w.Target]))
			continue
		}
		if !known[w.Target] {
			continue
		}
		sd := stoppedDel(w.Target)
		if sd == nil || sd.EndSeq == 0 || sd.EndSeq > w.DoneSeq {
			rc.Violate2("C07", "done-before-Stopped/"+feat, "%s(%s) by %s: context done at event %d but the target had not finished handling Stopped", w.Kind, w.Target, w.By, w.DoneSeq)
		}
		if w.Registered {
			rc.Violate2("C07", "done-while-registered/"+feat, "%s(%s) by %s: context done but the target was still registered", w.Kind, w.Target, w.By)
		}
		if w.Kind == "poison" && !hasStopReq(w.Target) && !isLate[w] {
			// every message whose send happened-before the call (same client task,
			// earlier in its script) must have been handled by now
			for _, s := range sends {
				if s.target != w.Target || s.from != w.By || s.retSeq == 0 || s.retSeq > w.CallSeq {
					continue
				}
				if dead[s.m.ID] > 0 {
					continue
				}
				d := delivered[s.m.ID]
				if d == nil || (d.EndSeq == 0 && !d.Panicked) || (d.EndSeq > w.DoneSeq) {
					// an exhausted restart budget ends the actor before it drained: not a poison matter
					budgetGone := false
					for _, in := range env.byID[w.Target] {
						if in.Spec != nil && crashed(w.Target) > in.Spec.MaxRestarts {
							budgetGone = true
						}
					}
					if !budgetGone {
						rc.Violate2("C07", "poison-done-before-drained/"+feat, "poison(%s) by %s: context done at event %d but %s, sent before the call by the same task, had not been handled", w.Target, w.By, w.DoneSeq, s.m)
					}
				}
			}
		}
	}
	// probes after quiescence: unregistered targets dead-letter
	for id, pm := range probes {
		if dead[pm.ID] != 1 || delivered[pm.ID] != nil {
			rc.Violate2("C07", "send-after-stop-not-dead-lettered", "%s is stopped but a later send produced %d dead letters (delivered: %v)", id, dead[pm.ID], delivered[pm.ID] != nil)
		}
	}

	// ------------------------------------------------------------ C08
	for _, sp := range all {
		id := sp.FullID()
		par := parentOf[id]
		sd := stoppedDel(id)
		if par != "" {
			psd := stoppedDel(par)
			if psd != nil {
				feat := "single-pill"
				if pillsInSubtree(par) > 1 {
					feat = "several-pills"
				}
				if crashed(id) > 0 || crashed(par) > 0 {
					feat += "+crash"
				}
				if sd == nil {
					rc.Violate2("C08", "child-outlives-parent/"+feat, "%s handled Stopped but its child %s never did", par, id)
				} else if sd.EndSeq == 0 || sd.EndSeq > psd.Seq {
					rc.Violate2("C08", "parent-Stopped-before-child/"+feat, "%s handled Stopped (event %d) before its child %s had (event %d)", par, psd.Seq, id, sd.EndSeq)
				}
				if env.E.Registry.GetPID(kindOf(id), idOf(id)) != nil {
					rc.Violate2("C08", "child-still-registered/"+feat, "%s is stopped but its child %s is still registered", par, id)
				}
				for _, still := range psd.ChildrenStillRegistered {
					if still == id {
						rc.Violate2("C08", "child-registered-while-parent-handles-Stopped/"+feat, "when %s handled Stopped its child %s was still in the registry", par, id)
					}
				}
			}
		}
		// a stop/poison request for a node must complete (no hang in the tree)
		for _, w := range reqs[id] {
			if w.DoneSeq == 0 {
				feat := "single-pill"
				if pillsInSubtree(id) > 1 {
					feat = "several-pills"
				}
				rc.Violate2("C08", "shutdown-hangs/"+feat, "%s(%s): context never done; blocked tasks: %v", w.Kind, id, simrt.BlockedTasks())
			}
		}
		// Children()/Parent() at the two quiescent points
		for _, in := range env.byID[id] {
			for _, r := range in.Reports {
				var want []string
				for _, ch := range sp.Children {
					csd := stoppedDel(ch.FullID())
					if csd == nil || csd.Seq > r.Seq {
						want = append(want, ch.FullID())
					}
				}
				got := append([]string{}, r.Children...)
				sort.Strings(got)
				sort.Strings(want)
				phase := "before-stops"
				if r.Seq > phase2 {
					phase = "during-or-after-stops"
				}
				if r.Seq > phase2 && r.Seq < phase3 {
					// not a quiescent point: the exact set is in flux, but a nil
					// entry is never a child and Parent() never changes
					simrt.Probe("children-read-during-shutdowns")
					if r.HasNil {
						rc.Violate2("C08", "Children-has-nil/concurrent", "%s: Children() contained a nil entry while children were stopping", id)
					}
					if r.Parent != par {
						rc.Violate2("C08", "Parent-mismatch", "%s: Parent()=%q, spawned by %q", id, r.Parent, par)
					}
					continue
				}
				if r.HasNil {
					rc.Violate2("C08", "Children-has-nil/"+phase, "%s: Children() contained a nil entry", id)
				}
				if strings.Join(got, ",") != strings.Join(want, ",") {
					rc.Violate2("C08", "Children-mismatch/"+phase, "%s: Children()=%v, alive children=%v", id, got, want)
				}
				if r.Parent != par {
					rc.Violate2("C08", "Parent-mismatch", "%s: Parent()=%q, spawned by %q", id, r.Parent, par)
				}
			}
		}
	}
}

func init() {
	base := "one real Engine; a supervision tree (depth 0-3, fan-out 0-3) of scripted actors; 1-3 client tasks issuing sends, Stop and Poison for arbitrary nodes, unknown PIDs and already stopped PIDs, plus stop/poison issued by actors; contexts observed by watcher tasks that record, at the instant Done is seen, whether Stopped was handled and the PID is still registered; "
	core.Register(&core.Profile{Property: "C07", Name: "stop", Weight: 4, Cfg: cfgEngine, Run: runStop(stParams{focus: "C07"}),
		Doc:    base + "shallow trees, crashes while draining allowed; oracle: Done only after Stopped handled and unregistered, for Poison only after earlier sends of the same task are handled, every context done at quiescence, later sends dead-letter, pills never visible",
		Faults: []string{"concurrent stop/poison", "duplicate stop", "actor-crash-in-Receive", "stop of unknown / already stopped PID"}})
	core.Register(&core.Profile{Property: "C08", Name: "tree", Weight: 4, Cfg: cfgEngine, Run: runStop(stParams{focus: "C08"}),
		Doc:    base + "deeper trees; oracle: every descendant handled Stopped and is unregistered before its parent handles Stopped, no shutdown hangs, Children() at quiescent points equals the children still alive (no nil, no stale entry), Parent() names the spawner",
		Faults: []string{"concurrent stop/poison", "third-party stop of a child during parent shutdown", "child stopping itself"}})
}
