package engine

import (
	"fmt"
	"strings"
	"time"

	"github.com/anthdm/hollywood/actor"

	"verif/harness/core"
	"verif/sim/simrt"
)

// dead-letter scenario (C09): sends to nil / never spawned / stopped / foreign
// PIDs with several message types and senders, 1-3 monitors of which some have
// stopped without unsubscribing, concurrent senders.

type dlSend struct {
	id      int
	kind    int // 0 nil, 1 ghost (never spawned), 2 stopped actor, 3 foreign address, 4 live actor
	target  *actor.PID
	payload any
	sender  *actor.PID
}

func (s dlSend) String() string {
	return fmt.Sprintf("#%d %s->%s %T from=%s", s.id, [...]string{"nil", "ghost", "stopped", "foreign", "live", "stopped-subscriber"}[s.kind], pidStr(s.target), s.payload, pidStr(s.sender))
}

type plainMsg struct {
	ID   int
	Text string
}

func runDead(rc *core.RunCtx) {
	const own = "C09"
	setKnobs(rc)
	g := simrt.G()
	if g.Bool(0.5) {
		// small default inboxes: the event stream's and the monitors' ring
		// buffers grow and wrap under a handful of events
		sz := []int64{1, 2, 3, 5}[g.IntN(4)]
		if simrt.SetKnob("actor.defaultInboxSize", sz) {
			rc.Scen("default inbox size %d", sz)
		}
	}
	env := NewEnv(rc)
	nlive := g.Range(1, 2)
	ndead := g.Pick(3, 3, 1)
	var live, deadMons []*Monitor
	for i := 0; i < nlive; i++ {
		live = append(live, env.NewMonitor(fmt.Sprintf("live%d", i)))
	}
	for i := 0; i < ndead; i++ {
		deadMons = append(deadMons, env.NewMonitor(fmt.Sprintf("dead%d", i)))
	}
	// a live and a stopped scripted actor
	liveSpec := &Spec{Kind: "act", ID: "live", MaxRestarts: 1, InboxSize: 4, PanicInit: map[int]bool{}, PanicStarted: map[int]bool{}, PanicStopped: map[int]bool{}}
	stoppedSpec := &Spec{Kind: "act", ID: "gone", MaxRestarts: 1, InboxSize: 4, PanicInit: map[int]bool{}, PanicStarted: map[int]bool{}, PanicStopped: map[int]bool{}}
	env.Spawn(liveSpec)
	env.Spawn(stoppedSpec)
	rc.PostRun = func(res *simrt.Result) {
		if res.Crash != nil && !res.Crash.Harness {
			rc.Violate2(own,"send-panicked/"+crashSite(res.Crash), "un-recovered panic in task %q: %s (raised in %s)", res.Crash.Task, core.FirstLine(res.Crash.Value), res.Crash.Origin)
		}
		if res.EndReason == "steps" {
			feat := "no-stopped-subscriber"
			if ndead > 0 {
				feat = "stopped-subscriber"
			}
			rc.Violate2(own,"unbounded-events/"+feat, "the run did not quiesce within %d scheduler steps after a finite number of sends (%d stopped-but-subscribed monitors): events keep generating events", res.Steps, ndead)
		}
	}
	simrt.WaitQuiet(time.Hour)
	// stop the "dead" monitors and the stopped actor and wait for completion
	for _, m := range deadMons {
		simrt.Recv(env.E.Poison(m.PID).Done())
	}
	simrt.Recv(env.E.Poison(actor.NewPID("local", "act/gone")).Done())
	simrt.WaitQuiet(time.Hour)
	if g.Bool(0.25) {
		// a repeated send (Engine.SendRepeat) whose target stops while the
		// repeater keeps ticking: the ticks after the stop are undeliverable too
		tgt := env.E.SpawnFunc(func(*actor.Context) {}, "rep", actor.WithID("t"))
		tick := plainMsg{-1, "tick"}
		rep := env.E.SendRepeat(tgt, tick, time.Millisecond)
		simrt.WaitQuiet(3 * time.Millisecond)
		simrt.Recv(env.E.Poison(tgt).Done())
		count := func() int {
			n := 0
			for _, e := range live[0].Events {
				if v, ok := e.Ev.(actor.DeadLetterEvent); ok && v.Message == any(tick) {
					n++
				}
			}
			return n
		}
		before := count()
		simrt.WaitQuiet(6 * time.Millisecond)
		rep.Stop()
		simrt.WaitQuiet(time.Hour)
		rc.Scen("SendRepeat every 1ms to rep/t, which is poisoned after 3ms; the repeater runs 6ms longer")
		if n := count() - before; n < 3 {
			rc.Violate2(own, "repeated-send-to-stopped-actor-not-dead-lettered", "the repeater ticked every millisecond for 6 ms after its target had stopped; monitor %s saw %d DeadLetterEvents for those ticks", live[0].Name, n)
		}
	}
	baseline := map[*Monitor]int{}
	for _, m := range live {
		baseline[m] = len(m.Events)
	}

	nclients := 1 + g.Pick(3, 4, 2)
	maxOps := 6
	if rc.Tier == "thorough" {
		maxOps = 12
	}
	senders := []*actor.PID{nil, actor.NewPID("local", "ext/1"), actor.NewPID("other:1", "ext/2")}
	var all []dlSend
	nilSent := false
	scripts := make([][]dlSend, nclients)
	nid := 0
	for c := range scripts {
		n := g.Range(1, maxOps)
		for i := 0; i < n; i++ {
			nid++
			s := dlSend{id: nid, kind: g.Pick(1, 4, 4, 3, 2, 3), sender: senders[g.IntN(len(senders))]}
			switch s.kind {
			case 0:
				s.target = nil
			case 1:
				s.target = actor.NewPID("local", fmt.Sprintf("ghost/%d", g.IntN(2)))
			case 2:
				s.target = actor.NewPID("local", "act/gone")
			case 3:
				// a foreign address; the id may well be one that exists locally
				s.target = actor.NewPID(fmt.Sprintf("10.0.0.%d:4000", 1+g.IntN(2)), []string{"act/far", "act/live", "act/gone"}[g.IntN(3)])
			case 4:
				s.target = actor.NewPID("local", "act/live")
			case 5:
				// a subscriber that has stopped without unsubscribing
				if ndead == 0 {
					s.kind = 1
					s.target = actor.NewPID("local", "ghost/2")
				} else {
					d := deadMons[g.IntN(ndead)]
					s.target = actor.NewPID(d.PID.Address, d.PID.ID)
				}
			}
			switch g.Pick(6, 4, 4, 2, 2, 1) {
			case 5:
				// the undeliverable message is itself an event value (a monitor that
				// forwards dead letters to a supervisor that has gone away)
				s.payload = actor.DeadLetterEvent{Target: actor.NewPID("local", "x/inner"), Message: fmt.Sprintf("inner-%d", nid)}
			case 4:
				// an untyped nil message value (once per run, so that its events are attributable)
				if nilSent || s.kind == 4 {
					s.payload = fmt.Sprintf("text-%d", nid)
				} else {
					nilSent = true
					s.payload = nil
				}
			case 0:
				m := env.NewMsg(fmt.Sprintf("c%d", c), i)
				s.payload = m
			case 1:
				s.payload = fmt.Sprintf("text-%d", nid)
			case 2:
				s.payload = 1000000 + nid
			case 3:
				s.payload = plainMsg{nid, "x"}
			}
			if s.kind == 4 {
				m := env.NewMsg(fmt.Sprintf("c%d", c), i)
				s.payload = m
			}
			scripts[c] = append(scripts[c], s)
			all = append(all, s)
		}
	}
	for c, sc := range scripts {
		var sb strings.Builder
		for _, s := range sc {
			sb.WriteString(s.String() + "; ")
		}
		rc.Scen("client c%d: %s", c, sb.String())
	}
	rc.Scen("live monitors=%d stopped-but-subscribed monitors=%d", nlive, ndead)
	// an actor whose shutdown takes a while, stopped by several callers at once;
	// each of them sends to it as soon as its own Stop/Poison context is done:
	// by then the actor counts as stopped and the send must dead-letter
	nstoppers, stoppersDone := 0, 0
	if g.Bool(0.4) {
		slow := &Spec{Kind: "act", ID: "slow", MaxRestarts: 1, InboxSize: 4, SlowStopped: g.Range(1, 6), PanicInit: map[int]bool{}, PanicStarted: map[int]bool{}, PanicStopped: map[int]bool{}}
		env.Spawn(slow)
		nstoppers = g.Range(2, 3)
		rc.Scen("%d concurrent stoppers of act/slow (Stopped handler yields %d times), each sends after its context is done", nstoppers, slow.SlowStopped)
		for k := 0; k < nstoppers; k++ {
			k := k
			poison := g.Bool(0.5)
			nid++
			s := dlSend{id: nid, kind: 2, target: actor.NewPID("local", "act/slow"), payload: plainMsg{nid, "after-stop"}}
			all = append(all, s)
			simrt.Go(fmt.Sprintf("stopper%d", k), func() {
				for i := simrt.IntN(4); i > 0; i-- {
					simrt.Yield(simrt.OpUser)
				}
				if poison {
					simrt.Recv(env.E.Poison(s.target).Done())
				} else {
					simrt.Recv(env.E.Stop(s.target).Done())
				}
				simrt.Ev("send %s", s)
				env.E.Send(s.target, s.payload)
				stoppersDone++
			})
		}
	}
	// Stop/Poison of PIDs nobody is registered under (the pill is the
	// undeliverable message), while other tasks keep writing to the registry
	nUnknownStops, unknownDone := 0, 0
	if g.Bool(0.4) {
		nUnknownStops = g.Range(1, 3)
		rc.Scen("%d Stop/Poison calls on unregistered PIDs ghost/s*, racing a task that spawns and stops actors", nUnknownStops)
		for i := 0; i < nUnknownStops; i++ {
			tgt := actor.NewPID("local", fmt.Sprintf("ghost/s%d", i%2))
			poison := g.Bool(0.5)
			simrt.Go(fmt.Sprintf("stop-unknown%d", i), func() {
				for k := simrt.IntN(6); k > 0; k-- {
					simrt.Yield(simrt.OpUser)
				}
				if poison {
					simrt.Recv(env.E.Poison(tgt).Done())
				} else {
					simrt.Recv(env.E.Stop(tgt).Done())
				}
				unknownDone++
			})
		}
		simrt.Go("registry-churn", func() {
			for j := 0; j < 3; j++ {
				pid := env.E.SpawnFunc(func(*actor.Context) {}, "churn", actor.WithID(fmt.Sprint(j)))
				simrt.Recv(env.E.Poison(pid).Done())
			}
		})
	}
	finished := 0
	for c := range scripts {
		c := c
		simrt.Go(fmt.Sprintf("client%d", c), func() {
			for _, s := range scripts[c] {
				simrt.Ev("send %s", s)
				if s.sender != nil {
					env.E.SendWithSender(s.target, s.payload, s.sender)
				} else {
					env.E.Send(s.target, s.payload)
				}
			}
			finished++
		})
	}
	simrt.WaitQuiet(time.Hour)
	if finished != nclients {
		rc.Violate2(own,"send-blocked", "%d of %d sender tasks finished; blocked: %v", finished, nclients, simrt.BlockedTasks())
	}
	if unknownDone != nUnknownStops {
		rc.Violate2(own, "stop-of-unknown-pid-blocked", "%d of %d Stop/Poison calls on unregistered PIDs returned a context that became done; blocked: %v", unknownDone, nUnknownStops, simrt.BlockedTasks())
		return
	}
	if nUnknownStops > 0 {
		for _, m := range live {
			n := 0
			for _, e := range m.Events[baseline[m]:] {
				if v, ok := e.Ev.(actor.DeadLetterEvent); ok && v.Target != nil && strings.HasPrefix(v.Target.ID, "ghost/s") && fmt.Sprintf("%T", v.Message) == "actor.poisonPill" {
					n++
				}
			}
			if n != nUnknownStops {
				rc.Violate2(own, "dead-letter-count/stop-of-unknown-pid", "%d Stop/Poison calls on unregistered PIDs, monitor %s saw %d DeadLetterEvents carrying their pills", nUnknownStops, m.Name, n)
			}
		}
	}
	if stoppersDone != nstoppers {
		rc.Block("%d of %d stop callers returned (C07)", stoppersDone, nstoppers)
		return
	}
	for _, m := range live {
		evs := m.Events[baseline[m]:]
		for _, s := range all {
			ndl, nrm := 0, 0
			for _, e := range evs {
				switch v := e.Ev.(type) {
				case actor.DeadLetterEvent:
					if v.Message == s.payload {
						ndl++
						if pidStr(v.Target) != pidStr(s.target) {
							rc.Violate2(own,"dead-letter-wrong-target", "%s: DeadLetterEvent names target %s", s, pidStr(v.Target))
						}
						if pidStr(v.Sender) != pidStr(s.sender) {
							rc.Violate2(own,"dead-letter-wrong-sender", "%s: DeadLetterEvent names sender %s", s, pidStr(v.Sender))
						}
					}
				case actor.EngineRemoteMissingEvent:
					if v.Message == s.payload {
						nrm++
						if pidStr(v.Target) != pidStr(s.target) || pidStr(v.Sender) != pidStr(s.sender) {
							rc.Violate2(own,"remote-missing-wrong-fields", "%s: EngineRemoteMissingEvent names target %s sender %s", s, pidStr(v.Target), pidStr(v.Sender))
						}
					}
				}
			}
			feat := [...]string{"nil", "ghost", "stopped", "foreign", "live", "stopped-subscriber"}[s.kind]
			if ndead > 0 {
				feat += "+stopped-subscriber"
			}
			switch s.kind {
			case 0, 4:
				if ndl != 0 || nrm != 0 {
					rc.Violate2(own,"unexpected-event/"+feat, "%s: monitor %s saw %d dead letters, %d remote-missing events", s, m.Name, ndl, nrm)
				}
			case 1, 2, 5:
				if ndl != 1 || nrm != 0 {
					rc.Violate2(own, "dead-letter-count/"+feat, "%s: monitor %s saw %d DeadLetterEvents (want exactly 1) and %d remote-missing events", s, m.Name, ndl, nrm)
					if ndl == 0 {
						rc.Violate2("C12", "lifecycle-event-missing/dead-letter/"+feat, "%s: no DeadLetterEvent reached subscriber %s", s, m.Name)
					}
				}
			case 3:
				if nrm != 1 || ndl != 0 {
					rc.Violate2(own,"remote-missing-count/"+feat, "%s: monitor %s saw %d EngineRemoteMissingEvents (want exactly 1) and %d dead letters", s, m.Name, nrm, ndl)
				}
			}
		}
	}
	// an event forwarded to a stopped subscriber is itself an undeliverable
	// message: its dead letter must reach the live subscribers (at least the
	// first one per stopped subscriber; then the stream forgets it)
	for _, d := range deadMons {
		for _, m := range live {
			n := 0
			for _, e := range m.Events {
				if v, ok := e.Ev.(actor.DeadLetterEvent); ok && v.Target != nil && v.Target.ID == d.PID.ID {
					if strings.HasPrefix(fmt.Sprintf("%T", v.Message), "actor.") {
						n++ // the undeliverable message is one of the engine's own events
					}
				}
			}
			if n == 0 {
				rc.Violate2(own, "dead-letter-count/event-forwarded-to-stopped-subscriber", "monitor %s never saw a DeadLetterEvent for the events forwarded to the stopped subscriber %s", m.Name, d.Name)
				rc.Violate2("C12", "lifecycle-event-missing/dead-letter/event-forwarded-to-stopped-subscriber", "subscriber %s never saw a DeadLetterEvent for the events forwarded to the stopped subscriber %s", m.Name, d.Name)
			}
		}
	}
	// nothing but the messages addressed to it (local address, its id) reaches
	// the live actor: not a message for a foreign address that carries its id
	for _, d := range env.Dels {
		if d.Actor != "act/live" {
			continue
		}
		ok := d.Kind != dOther
		if d.Kind == dUser {
			ok = false
			for _, s := range all {
				if s.kind == 4 && s.payload == any(d.Msg) {
					ok = true
				}
			}
		}
		if !ok {
			what := d.Other
			if d.Msg != nil {
				what = d.Msg.String()
			}
			rc.Violate2(own, "undeliverable-message-delivered", "act/live received %s, which was not sent to it (sends to a foreign address or to other ids must surface as events, not reach a local actor)", what)
		}
	}
	// live deliveries
	for _, s := range all {
		if s.kind == 4 {
			um := s.payload.(*UMsg)
			n := 0
			for _, d := range env.Dels {
				if d.Kind == dUser && d.Msg == um {
					n++
				}
			}
			if n != 1 {
				rc.Violate2("C01", "live-delivery-count", "%s delivered %d times", s, n)
			}
		}
	}
	rc.Nontrivial = len(all) > 1
	if ndead > 0 {
		simrt.Probe("stopped-but-subscribed-monitor")
	}
}

func cfgDead(cfg *simrt.Config, tier string) {
	cfg.MaxSteps = 150_000
}

func init() {
	core.Register(&core.Profile{Property: "C12", Name: "dead-letter-events", Weight: 2, Cfg: cfgDead, Run: runDead,
		Doc: "the dead-letter scenario of C09 (live and stopped-but-subscribed monitors, undeliverable sends of all kinds); oracle for C12: every undeliverable send - including the forwarding of an event to a subscriber that has stopped - has its DeadLetterEvent at every live subscriber"})
	core.Register(&core.Profile{Property: "C09", Name: "deadletter", Weight: 4, Cfg: cfgDead, Run: runDead,
		Doc: "one real Engine without remote; 1-2 live monitors and 0-2 monitors that were stopped without unsubscribing; 1-3 concurrent sender tasks sending *struct, string, int and struct values with senders {nil, local, foreign} to nil, never-spawned, stopped, foreign-address and live PIDs; oracle: every undeliverable local send yields exactly one DeadLetterEvent (same target, message, sender) at every live monitor, foreign sends exactly one EngineRemoteMissingEvent and no dead letter, nil/live nothing, every sender returns, and the run quiesces (a finite number of sends produces a finite number of events)",
		Faults: []string{"subscriber stopped without unsubscribing", "send to nil/unknown/stopped/foreign PID"}})
}
