package engine

import (
	"fmt"
	"sort"
	"strings"
	"time"

	"github.com/anishathalye/porcupine"
	"github.com/anthdm/hollywood/actor"

	"verif/harness/core"
	"verif/sim/simrt"
)

// registry scenario (C10): concurrent Spawn / SpawnChild / stop-and-wait /
// GetPID / Send over a pool of ids, checked for linearizability against a
// "set of registered ids" model (one partition per id), plus Producer-call
// counts, duplicate-id events and undisturbed incumbents.

const (
	rSpawn = iota
	rStopWait
	rGetPID
	rSend
	rRequest // Engine.Request + Result (nobody answers): registers and removes a temporary response process
)

type regIn struct {
	Op int
	ID string
}
type regOut struct {
	Won     bool // Spawn: this call's Producer ran
	Present bool // GetPID
}

var regModel = porcupine.Model{
	Partition: func(history []porcupine.Operation) [][]porcupine.Operation {
		m := map[string][]porcupine.Operation{}
		var keys []string
		for _, o := range history {
			id := o.Input.(regIn).ID
			if _, ok := m[id]; !ok {
				keys = append(keys, id)
			}
			m[id] = append(m[id], o)
		}
		var out [][]porcupine.Operation
		for _, k := range keys {
			out = append(out, m[k])
		}
		return out
	},
	Init: func() interface{} { return false },
	Step: func(state, in, out interface{}) (bool, interface{}) {
		present := state.(bool)
		i, o := in.(regIn), out.(regOut)
		switch i.Op {
		case rSpawn:
			if present {
				return !o.Won, true
			}
			return o.Won, true
		case rStopWait:
			return true, false
		case rGetPID:
			return o.Present == present, present
		}
		return true, present
	},
	DescribeOperation: func(in, out interface{}) string {
		i, o := in.(regIn), out.(regOut)
		switch i.Op {
		case rSpawn:
			return fmt.Sprintf("Spawn(%s)->won=%v", i.ID, o.Won)
		case rStopWait:
			return fmt.Sprintf("StopAndWait(%s)", i.ID)
		case rGetPID:
			return fmt.Sprintf("GetPID(%s)->%v", i.ID, o.Present)
		}
		return "?"
	},
}

type regOp struct {
	op     int
	id     string // "reg/x"
	msg    *UMsg
	asKid  bool // spawn through Context.SpawnChild of the parent actor
	poison bool
}

func runRegistry(withStops bool) func(rc *core.RunCtx) {
	return func(rc *core.RunCtx) {
		const own = "C10"
		setKnobs(rc)
		g := simrt.G()
		env := NewEnv(rc)
		mon := env.NewMonitor("mon")
		nids := g.Range(1, 3)
		ids := []string{}
		for i := 0; i < nids; i++ {
			// ids that are string prefixes of one another, with and without the
			// separator in between: they are different actors all the same
			ids = append(ids, []string{"reg/i1", "reg/i10", "reg/i1/x"}[i])
		}
		if g.Bool(0.2) {
			// an application actor whose id looks like the ids the engine makes up
			// for the temporary response processes of Request
			ids[len(ids)-1] = fmt.Sprintf("response/%d", g.Range(1, 3))
		} else if g.Bool(0.2) {
			// a kind/id pair that a path cleaner would rewrite
			ids[len(ids)-1] = []string{"reg//d", "reg/./e", "reg/a/../f"}[g.IntN(3)]
		}
		slowStopped := g.Pick(2, 1, 1) // yields inside Stopped: a shutdown that takes a while
		ntasks := 2 + g.Pick(3, 3, 2)
		maxOps := 6
		if rc.Tier == "thorough" {
			maxOps = 10
		}
		scripts := make([][]regOp, ntasks)
		per := map[string]int{}
		crashN := map[string]int{}
		for t := range scripts {
			n := g.Range(1, maxOps)
			for i := 0; i < n; i++ {
				id := ids[g.IntN(len(ids))]
				k := g.Pick(5, 2, 3, 3, 1)
				if !withStops && k == rStopWait {
					k = rSpawn
				}
				o := regOp{op: k, id: id}
				if k == rSend {
					src := fmt.Sprintf("t%d", t)
					o.msg = env.NewMsg(src, per[src+id])
					per[src+id]++
					if crashN[id] < 2 && g.Bool(0.15) {
						// the actor crashes on this one and is restarted (budget 3)
						o.msg.Op = cPanic
						crashN[id]++
					}
				}
				if k == rStopWait {
					o.poison = g.Bool(0.5)
				}
				scripts[t] = append(scripts[t], o)
			}
		}
		for t, sc := range scripts {
			var sb strings.Builder
			for _, o := range sc {
				switch o.op {
				case rSpawn:
					fmt.Fprintf(&sb, "Spawn(%s) ", o.id)
				case rStopWait:
					fmt.Fprintf(&sb, "StopWait(%s,poison=%v) ", o.id, o.poison)
				case rGetPID:
					fmt.Fprintf(&sb, "GetPID(%s) ", o.id)
				case rSend:
					fmt.Fprintf(&sb, "Send(%s,%s) ", o.id, o.msg)
				case rRequest:
					fmt.Fprintf(&sb, "Request(%s).Result() ", o.id)
				}
			}
			rc.Scen("task t%d: %s", t, sb.String())
		}
		rc.PostRun = func(res *simrt.Result) {
			if res.Crash != nil && !res.Crash.Harness {
				rc.Block("process crashed: %s", core.FirstLine(res.Crash.Value))
			}
			if res.EndReason == "steps" {
				rc.Block("step budget exhausted")
			}
		}
		var seq int64
		var hist []porcupine.Operation
		losing := map[string]int{}
		winning := map[string]int{}
		finished := 0
		for t := range scripts {
			t := t
			simrt.Go(fmt.Sprintf("task%d", t), func() {
				for _, o := range scripts[t] {
					simrt.Yield(simrt.OpUser)
					switch o.op {
					case rSpawn:
						sp := &Spec{Kind: kindOf(o.id), ID: idOf(o.id), MaxRestarts: 3, InboxSize: 4, SlowStopped: slowStopped, PanicInit: map[int]bool{}, PanicStarted: map[int]bool{}, PanicStopped: map[int]bool{}}
						before := len(env.byID[o.id])
						prodBefore := 0
						for _, in := range env.byID[o.id] {
							prodBefore += in.Produced
						}
						seq++
						call := seq
						won := false
						// the Producer closure of this very call tells whether it won
						prod := env.producer(sp, "")
						wrapped := func() actor.Receiver { won = true; return prod() }
						simrt.Ev("spawn-call t%d %s", t, o.id)
						env.E.Spawn(wrapped, sp.Kind, env.opts(sp)...)
						seq++
						simrt.Ev("spawn-ret t%d %s won=%v", t, o.id, won)
						hist = append(hist, porcupine.Operation{ClientId: t, Input: regIn{rSpawn, o.id}, Call: call, Output: regOut{Won: won}, Return: seq})
						if won {
							winning[o.id]++
						} else {
							losing[o.id]++
						}
						_ = before
					case rStopWait:
						seq++
						call := seq
						simrt.Ev("stopwait-call t%d %s", t, o.id)
						var ctx interface{ Done() <-chan struct{} }
						if o.poison {
							ctx = env.E.Poison(actor.NewPID("local", o.id))
						} else {
							ctx = env.E.Stop(actor.NewPID("local", o.id))
						}
						simrt.Recv(ctx.Done())
						seq++
						simrt.Ev("stopwait-ret t%d %s", t, o.id)
						hist = append(hist, porcupine.Operation{ClientId: t, Input: regIn{rStopWait, o.id}, Call: call, Output: regOut{}, Return: seq})
					case rGetPID:
						seq++
						call := seq
						p := env.E.Registry.GetPID(kindOf(o.id), idOf(o.id))
						seq++
						simrt.Ev("getpid t%d %s -> %v", t, o.id, p != nil)
						hist = append(hist, porcupine.Operation{ClientId: t, Input: regIn{rGetPID, o.id}, Call: call, Output: regOut{Present: p != nil}, Return: seq})
						if p != nil && (p.ID != o.id || p.Address != "local") {
							rc.Violate2(own, "getpid-wrong-pid", "GetPID(%s) returned %s", o.id, pidStr(p))
						}
					case rSend:
						env.Send(fmt.Sprintf("t%d", t), o.id, o.msg, nil)
					case rRequest:
						// nobody answers: Result returns after the timeout and removes "its" process
						resp := env.E.Request(actor.NewPID("local", o.id), env.NewMsg(fmt.Sprintf("req-t%d", t), 0), time.Millisecond)
						resp.Result()
					}
				}
				finished++
			})
		}
		simrt.WaitQuiet(time.Hour)
		if finished != ntasks {
			feat := "no-stops"
			if withStops {
				feat = "with-stops"
			}
			rc.Violate2(own, "operation-never-returned/"+feat, "%d of %d tasks finished; blocked: %v", finished, ntasks, simrt.BlockedTasks())
			return
		}
		switch porcupine.CheckOperationsTimeout(regModel, hist, 10*time.Second) {
		case porcupine.Illegal:
			var sb strings.Builder
			for _, o := range hist {
				fmt.Fprintf(&sb, "t%d[%d,%d] %s; ", o.ClientId, o.Call, o.Return, regModel.DescribeOperation(o.Input, o.Output))
			}
			feat := "no-stops"
			if withStops {
				feat = "with-stops"
			}
			rc.Violate2(own, "registry-not-linearizable/"+feat, "no linearization against the set-of-registered-ids model: %s", sb.String())
		case porcupine.Unknown:
			rc.Inconclusive("porcupine timeout on %d ops", len(hist))
		}
		// Producer runs exactly once per winning spawn (no crashes here), never for a loser
		for _, id := range ids {
			prod := 0
			for _, in := range env.byID[id] {
				prod += in.Produced
			}
			restarts := 0 // the Producer also runs once per restart after a crash on a message
			for _, d := range env.userDeliveries(id) {
				if d.Panicked {
					restarts++
				}
			}
			if prod != winning[id]+restarts {
				rc.Violate2(own, "producer-calls", "%s: Producer ran %d times, %d spawns won, %d restarts", id, prod, winning[id], restarts)
			}
			dup := 0
			for _, e := range mon.Events {
				if d, ok := e.Ev.(actor.ActorDuplicateIdEvent); ok && d.PID != nil && d.PID.ID == id {
					dup++
				}
			}
			if dup != losing[id] {
				rc.Violate2(own, "duplicate-id-event-count", "%s: %d ActorDuplicateIdEvents, %d losing spawns", id, dup, losing[id])
				rc.Violate2("C12", "lifecycle-event-missing/duplicate-id", "%s: %d ActorDuplicateIdEvents, %d losing spawns", id, dup, losing[id])
			}
			// at most one live actor: instances must not overlap in time
			insts := env.byID[id]
			for i := 0; i+1 < len(insts); i++ {
				a, b := insts[i], insts[i+1]
				if len(a.Incs) == 0 || len(b.Incs) == 0 || len(b.Incs[0]) == 0 {
					continue
				}
				bStart := b.Incs[0][0].Seq
				stopped := false
				for _, inc := range a.Incs {
					for _, d := range inc {
						if d.Kind == dStopped && d.Seq < bStart {
							stopped = true
						}
					}
				}
				if !stopped {
					rc.Violate2(own, "two-live-actors", "%s: a second actor was started under the id before the first one got Stopped", id)
				}
			}
			if !withStops {
				// without stops the id is taken from the first spawn on: every further
				// spawn is a duplicate-id occurrence and must have its event
				if total := winning[id] + losing[id]; total > 0 && dup != total-1 {
					rc.Violate2("C12", "lifecycle-event-missing/duplicate-id", "%s: %d spawns of one id without any stop, %d ActorDuplicateIdEvents (want %d)", id, total, dup, total-1)
				}
				// the incumbent and its pending messages are untouched by duplicate spawns
				dead := map[int]int{}
				for _, dl := range mon.DeadLetters() {
					if um, ok := dl.Message.(*UMsg); ok {
						dead[um.ID]++
					}
				}
				got := map[int]int{}
				last := map[string]int{}
				for _, d := range env.userDeliveries(id) {
					got[d.Msg.ID]++
					if p, ok := last[d.Msg.Src]; ok && d.Msg.N < p {
						rc.Violate2(own, "incumbent-order-disturbed", "%s: %s delivered out of order", id, d.Msg)
					}
					last[d.Msg.Src] = d.Msg.N
				}
				for _, sc := range scripts {
					for _, o := range sc {
						if o.op == rSend && o.id == id {
							if got[o.msg.ID]+dead[o.msg.ID] != 1 {
								rc.Violate2(own, "incumbent-message-disturbed", "%s: %s delivered %d times, dead-lettered %d times", id, o.msg, got[o.msg.ID], dead[o.msg.ID])
							}
						}
					}
				}
				if len(insts) > 1 {
					rc.Violate2(own, "producer-calls", "%s: %d process instances without any stop", id, len(insts))
				}
			}
		}
		// final phase (quiescent): an actor that was started and never told to
		// stop is alive - it is registered and gets what is sent to it, whatever
		// happened to earlier actors under its id
		for _, id := range ids {
			insts := env.byID[id]
			if len(insts) == 0 {
				continue
			}
			last := insts[len(insts)-1]
			aliveNow := len(last.Incs) > 0
			if aliveNow {
				// (earlier incarnations got Stopped when they crashed; the last one counts)
				for _, d := range last.Incs[len(last.Incs)-1] {
					if d.Kind == dStopped {
						aliveNow = false
					}
				}
			}
			if !aliveNow {
				continue
			}
			if env.E.Registry.GetPID(kindOf(id), idOf(id)) == nil {
				rc.Violate2(own, "live-actor-unregistered", "%s: the latest actor spawned under this id was started and never stopped, but GetPID returns nil", id)
				rc.Violate2("C01", "live-actor-unreachable", "%s: the latest actor spawned under this id was started and never stopped, but it is not registered: whatever is sent to it dead-letters", id)
				continue
			}
			fm := []*UMsg{env.NewMsg("final", 0), env.NewMsg("final", 1)}
			for _, m := range fm {
				env.Send("final", id, m, nil)
			}
			simrt.WaitQuiet(time.Hour)
			got := 0
			for _, d := range env.userDeliveries(id) {
				if d.Msg == fm[0] || d.Msg == fm[1] {
					got++
				}
			}
			if got != 2 {
				rc.Violate2("C01", "message-to-live-actor-not-delivered", "%s is alive and registered; %d of 2 messages sent to it at the end were delivered", id, got)
			}
		}
		rc.Nontrivial = len(hist) > 2
	}
}

// children scenario (C10): one parent actor spawns children from a small pool
// of ids through Context.SpawnChild on command, some of them doomed (their
// receiver panics while starting until the restart budget is exhausted, so
// the child lives and dies inside the SpawnChild call); tasks stop children
// and look them up meanwhile. Same linearizability model; a doomed winning
// spawn is the pair Spawn [call, first Producer run] + removal [first Producer
// run, return].
func runRegChildren(rc *core.RunCtx) {
	const own = "C10"
	setKnobs(rc)
	g := simrt.G()
	env := NewEnv(rc)
	mon := env.NewMonitor("mon")
	const (
		opCrashParent = 10
		opSpawnTop    = 11
	)
	parentCrashes := 0
	parent := &Spec{Kind: "par", ID: "p", MaxRestarts: 2, InboxSize: 1024, PanicInit: map[int]bool{}, PanicStarted: map[int]bool{}, PanicStopped: map[int]bool{}}
	env.Spawn(parent)
	nids := g.Range(1, 2)
	var ids []string
	for i := 0; i < nids; i++ {
		ids = append(ids, fmt.Sprintf("par/p/kid/k%d", i))
	}
	type chOp struct {
		op     int
		id     string
		doomed bool
		poison bool
		spec   *Spec
	}
	ntasks := g.Range(1, 3)
	maxOps := 5
	if rc.Tier == "thorough" {
		maxOps = 8
	}
	scripts := make([][]chOp, ntasks)
	for t := range scripts {
		n := g.Range(1, maxOps)
		var sb strings.Builder
		for i := 0; i < n; i++ {
			o := chOp{op: g.Pick(10, 4, 6, 1, 2), id: ids[g.IntN(len(ids))]}
			switch o.op {
			case 3: // the parent crashes on a message and is restarted: its children stay its children
				if parentCrashes >= 2 {
					o.op = rGetPID
					fmt.Fprintf(&sb, "GetPID(%s) ", o.id)
					break
				}
				parentCrashes++
				o.op = opCrashParent
				fmt.Fprintf(&sb, "CrashParent ")
			case 4: // somebody spawns a top-level actor under a child-looking id: it is nobody's child
				o.op = opSpawnTop
				o.spec = &Spec{Kind: kindOf(o.id), ID: idOf(o.id), MaxRestarts: 1, InboxSize: 4, PanicInit: map[int]bool{}, PanicStarted: map[int]bool{}, PanicStopped: map[int]bool{}}
				fmt.Fprintf(&sb, "Spawn(%s) ", o.id)
			case rSpawn:
				o.doomed = g.Bool(0.4)
				sp := &Spec{Kind: kindOf(o.id), ID: idOf(o.id), MaxRestarts: g.Range(0, 2), InboxSize: 4, SlowStopped: g.Pick(3, 1, 1, 1), PanicInit: map[int]bool{}, PanicStarted: map[int]bool{}, PanicStopped: map[int]bool{}}
				if o.doomed {
					for k := 0; k <= sp.MaxRestarts; k++ {
						if g.Bool(0.5) {
							sp.PanicInit[k] = true
						} else {
							sp.PanicStarted[k] = true
						}
					}
				}
				o.spec = sp
				fmt.Fprintf(&sb, "SpawnChild(%s,doomed=%v,maxRestarts=%d) ", o.id, o.doomed, sp.MaxRestarts)
			case rStopWait:
				o.poison = g.Bool(0.5)
				fmt.Fprintf(&sb, "StopWait(%s,poison=%v) ", o.id, o.poison)
			case rGetPID:
				fmt.Fprintf(&sb, "GetPID(%s) ", o.id)
			}
			scripts[t] = append(scripts[t], o)
		}
		rc.Scen("task t%d: %s", t, sb.String())
	}
	rc.PostRun = func(res *simrt.Result) {
		if res.Crash != nil && !res.Crash.Harness {
			rc.Block("process crashed: %s", core.FirstLine(res.Crash.Value))
		}
		if res.EndReason == "steps" {
			rc.Block("step budget exhausted")
		}
	}
	var seq int64
	var hist []porcupine.Operation
	losing, winning, wantProd := map[string]int{}, map[string]int{}, map[string]int{}
	const parentClient = 1000
	spawnsIssued, spawnsDone := 0, 0
	finished := 0
	for t := range scripts {
		t := t
		simrt.Go(fmt.Sprintf("task%d", t), func() {
			for i, o := range scripts[t] {
				o := o
				simrt.Yield(simrt.OpUser)
				switch o.op {
				case rSpawn:
					m := env.NewMsg(fmt.Sprintf("t%d", t), i)
					m.Op, m.Spec = cSpawnChild, o.spec
					var call, t1 int64
					won := false
					m.Hook = func(stage int) {
						switch stage {
						case 0:
							seq++
							call = seq
						case 1:
							won = true
							seq++
							t1 = seq
							seq++ // t1+1 is reserved for the removal of a doomed child
							hist = append(hist, porcupine.Operation{ClientId: parentClient, Input: regIn{rSpawn, o.id}, Call: call, Output: regOut{Won: true}, Return: t1})
						case 2:
							seq++
							if !won {
								hist = append(hist, porcupine.Operation{ClientId: parentClient, Input: regIn{rSpawn, o.id}, Call: call, Output: regOut{Won: false}, Return: seq})
								losing[o.id]++
							} else {
								winning[o.id]++
								wantProd[o.id]++
								if o.doomed {
									// it has used up its budget and is gone by now
									wantProd[o.id] += o.spec.MaxRestarts
									seq++
									hist = append(hist, porcupine.Operation{ClientId: parentClient, Input: regIn{rStopWait, o.id}, Call: t1 + 1, Output: regOut{}, Return: seq})
									simrt.Probe("child-died-inside-SpawnChild")
								}
							}
							simrt.Ev("spawnchild %s won=%v doomed=%v", o.id, won, o.doomed)
							spawnsDone++
						}
					}
					spawnsIssued++
					env.Send(fmt.Sprintf("t%d", t), parent.FullID(), m, nil)
				case rStopWait:
					seq++
					call := seq
					var ctx interface{ Done() <-chan struct{} }
					if o.poison {
						ctx = env.E.Poison(actor.NewPID("local", o.id))
					} else {
						ctx = env.E.Stop(actor.NewPID("local", o.id))
					}
					simrt.Recv(ctx.Done())
					seq++
					simrt.Ev("stopwait t%d %s", t, o.id)
					hist = append(hist, porcupine.Operation{ClientId: t, Input: regIn{rStopWait, o.id}, Call: call, Output: regOut{}, Return: seq})
				case rGetPID:
					seq++
					call := seq
					p := env.E.Registry.GetPID(kindOf(o.id), idOf(o.id))
					seq++
					simrt.Ev("getpid t%d %s -> %v", t, o.id, p != nil)
					hist = append(hist, porcupine.Operation{ClientId: t, Input: regIn{rGetPID, o.id}, Call: call, Output: regOut{Present: p != nil}, Return: seq})
				case opCrashParent:
					m := env.NewMsg(fmt.Sprintf("t%d", t), i)
					m.Op = cPanic
					env.Send(fmt.Sprintf("t%d", t), parent.FullID(), m, nil)
				case opSpawnTop:
					seq++
					call := seq
					won := false
					prod := env.producer(o.spec, "")
					env.E.Spawn(func() actor.Receiver { won = true; return prod() }, o.spec.Kind, env.opts(o.spec)...)
					seq++
					simrt.Ev("spawn-top t%d %s won=%v", t, o.id, won)
					hist = append(hist, porcupine.Operation{ClientId: t, Input: regIn{rSpawn, o.id}, Call: call, Output: regOut{Won: won}, Return: seq})
					if won {
						winning[o.id]++
						wantProd[o.id]++
					} else {
						losing[o.id]++
					}
				}
			}
			finished++
		})
	}
	simrt.WaitQuiet(time.Hour)
	if finished != ntasks || spawnsDone != spawnsIssued {
		rc.Violate2(own, "operation-never-returned/children", "%d of %d tasks finished, %d of %d SpawnChild commands completed; blocked: %v", finished, ntasks, spawnsDone, spawnsIssued, simrt.BlockedTasks())
		return
	}
	switch porcupine.CheckOperationsTimeout(regModel, hist, 10*time.Second) {
	case porcupine.Illegal:
		var sb strings.Builder
		for _, o := range hist {
			fmt.Fprintf(&sb, "c%d[%d,%d] %s; ", o.ClientId, o.Call, o.Return, regModel.DescribeOperation(o.Input, o.Output))
		}
		rc.Violate2(own, "registry-not-linearizable/children", "no linearization against the set-of-registered-ids model (a child that exhausts its restart budget while starting counts as spawned, then removed): %s", sb.String())
	case porcupine.Unknown:
		rc.Inconclusive("porcupine timeout on %d ops", len(hist))
	}
	for _, id := range ids {
		prod := 0
		for _, in := range env.byID[id] {
			prod += in.Produced
		}
		if prod != wantProd[id] {
			rc.Violate2(own, "producer-calls/children", "%s: Producer ran %d times, want %d (%d winning spawns, one more run per restart of a doomed child)", id, prod, wantProd[id], winning[id])
		}
		dup := 0
		for _, e := range mon.Events {
			if d, ok := e.Ev.(actor.ActorDuplicateIdEvent); ok && d.PID != nil && d.PID.ID == id {
				dup++
			}
		}
		if dup != losing[id] {
			rc.Violate2(own, "duplicate-id-event-count/children", "%s: %d ActorDuplicateIdEvents, %d losing SpawnChild calls", id, dup, losing[id])
			rc.Violate2("C12", "lifecycle-event-missing/duplicate-id/children", "%s: %d ActorDuplicateIdEvents, %d losing SpawnChild calls", id, dup, losing[id])
		}
	}
	// final phase (quiescent): the parent's list of children is exactly the set
	// of pool ids that are registered now - whatever duplicate spawns, deaths at
	// birth, stops by third parties and respawns happened - and a parent that
	// is poisoned now takes every one of them down before it stops itself
	var alive []string     // registered children of the parent
	topLevel := map[string]bool{} // pool ids currently held by a top-level actor (nobody's child)
	for _, id := range ids {
		if env.E.Registry.GetPID(kindOf(id), idOf(id)) != nil {
			if in := env.actors[id]; in != nil && in.Parent == "" {
				topLevel[id] = true
				continue
			}
			alive = append(alive, id)
		}
	}
	rm := env.NewMsg("final", 0)
	rm.Op = cReport
	env.Send("final", parent.FullID(), rm, nil)
	simrt.WaitQuiet(time.Hour)
	pin := env.actors[parent.FullID()]
	if pin != nil && len(pin.Reports) > 0 {
		got := append([]string{}, pin.Reports[len(pin.Reports)-1].Children...)
		sort.Strings(got)
		sort.Strings(alive)
		if strings.Join(got, ",") != strings.Join(alive, ",") {
			rc.Violate2("C08", "Children-mismatch/respawned-children", "%s: Children()=%v, registered children=%v", parent.FullID(), got, alive)
		}
	}
	// somebody else takes over the id of a child as soon as the child has left
	// the registry (a top-level Spawn under the same kind and id), while the
	// parent is still shutting down: that actor is nobody's child
	respawnID, respawnWon := "", false
	if len(alive) > 0 && g.Bool(0.5) {
		respawnID = alive[g.IntN(len(alive))]
		rc.Scen("while %s shuts down, a task spawns a top-level actor under %s as soon as that id is free", parent.FullID(), respawnID)
		sp := &Spec{Kind: kindOf(respawnID), ID: idOf(respawnID), MaxRestarts: 1, InboxSize: 4, PanicInit: map[int]bool{}, PanicStarted: map[int]bool{}, PanicStopped: map[int]bool{}}
		simrt.Go("respawner", func() {
			for i := 0; i < 3000 && env.E.Registry.GetPID(sp.Kind, sp.ID) != nil; i++ {
				simrt.Yield(simrt.OpUser)
			}
			prod := env.producer(sp, "")
			env.E.Spawn(func() actor.Receiver { respawnWon = true; return prod() }, sp.Kind, env.opts(sp)...)
		})
	}
	simrt.Recv(env.E.Poison(actor.NewPID("local", parent.FullID())).Done())
	simrt.WaitQuiet(time.Hour)
	if respawnWon && env.E.Registry.GetPID(kindOf(respawnID), idOf(respawnID)) == nil {
		rc.Violate2(own, "live-actor-unregistered/respawn-during-parent-shutdown", "%s: a top-level actor was spawned under this id after the child had left the registry; nobody stopped it, yet it is not registered any more", respawnID)
	}
	for _, id := range ids {
		if topLevel[id] {
			// a top-level actor that happens to carry a child-looking id: the
			// parent's shutdown is none of its business
			insts := env.byID[id]
			last := insts[len(insts)-1]
			gotStopped := false
			for _, inc := range last.Incs {
				for _, d := range inc {
					if d.Kind == dStopped {
						gotStopped = true
					}
				}
			}
			if gotStopped || env.E.Registry.GetPID(kindOf(id), idOf(id)) == nil {
				rc.Violate2(own, "live-actor-unregistered/top-level-actor-under-child-id", "%s was spawned as a top-level actor (not through SpawnChild); when %s shut down it was stopped=%v and is registered=%v", id, parent.FullID(), gotStopped, env.E.Registry.GetPID(kindOf(id), idOf(id)) != nil)
				rc.Violate2("C08", "foreign-actor-stopped-with-parent", "%s is not a child of %s (it was spawned top-level), yet it was stopped when %s shut down", id, parent.FullID(), parent.FullID())
			}
			continue
		}
		if id == respawnID && respawnWon {
			// the id belongs to the new top-level actor now; the children that ran
			// under it before must all be gone
			insts := env.byID[id]
			for k, in := range insts[:len(insts)-1] {
				stopped := false
				if n := len(in.Incs); n > 0 {
					for _, d := range in.Incs[n-1] {
						if d.Kind == dStopped {
							stopped = true
						}
					}
				}
				if !stopped {
					rc.Violate2("C08", "child-not-stopped/respawned-children", "%s is stopped, but actor #%d spawned under its child id %s never handled Stopped", parent.FullID(), k+1, id)
				}
			}
			continue
		}
		if env.E.Registry.GetPID(kindOf(id), idOf(id)) != nil {
			rc.Violate2("C08", "child-still-registered/respawned-children", "%s is stopped but its child %s is still registered", parent.FullID(), id)
		}
		// every actor that ever ran under a child id is gone by now
		for k, in := range env.byID[id] {
			stopped := false
			if n := len(in.Incs); n > 0 {
				for _, d := range in.Incs[n-1] {
					if d.Kind == dStopped {
						stopped = true
					}
				}
			}
			if !stopped {
				rc.Violate2("C08", "child-not-stopped/respawned-children", "%s is stopped, but actor #%d spawned under its child id %s never handled Stopped", parent.FullID(), k+1, id)
			}
		}
	}
	rc.Nontrivial = len(hist) > 2
}

func init() {
	core.Register(&core.Profile{Property: "C10", Name: "children", Weight: 2, Cfg: cfgEngine, Run: runRegChildren,
		Doc: "one real Engine; a parent actor spawns children from a pool of 1-2 ids through Context.SpawnChild on command (40% of them doomed: the receiver panics in Initialized/Started until the restart budget 0-2 is exhausted, so the child lives and dies inside the call), 1-3 tasks stop/poison-and-wait and look up the children meanwhile; oracle: porcupine linearizability against the set-of-registered-ids model, Producer runs per winning spawn (1 + restarts of a doomed child) and never for a loser, one ActorDuplicateIdEvent per losing spawn: an id whose actor died can be spawned again",
		Faults: []string{"actor-crash-in-Initialized", "actor-crash-in-Started", "restart-budget-exceeded", "concurrent stop/poison"}})
	core.Register(&core.Profile{Property: "C08", Name: "respawned-children", Weight: 2, Cfg: cfgEngine, Run: runRegChildren,
		Doc: "the SpawnChild scenario of C10: a parent spawning children from a pool of 1-2 ids on command - duplicates of live children, children that die at birth, respawns after (or while) a child is stopped by a third party, slow Stopped handlers; oracle for C08: at the final quiescent point Children() is exactly the set of registered child ids, and when the parent is then poisoned every actor that ever ran under a child id has handled Stopped and is unregistered",
		Faults: []string{"actor-crash-in-Initialized", "actor-crash-in-Started", "restart-budget-exceeded", "concurrent stop/poison"}})
	core.Register(&core.Profile{Property: "C12", Name: "duplicate-child-events", Weight: 1, Cfg: cfgEngine, Run: runRegChildren,
		Doc: "the SpawnChild scenario of C10 (a parent spawning children from a pool of 1-2 ids on command, some doomed, stop/poison callers); oracle for C12: exactly one ActorDuplicateIdEvent per SpawnChild call that lost to a live child of the same id"})
	base := "one real Engine; 2-4 tasks doing Spawn / stop-and-wait / GetPID / Send over a pool of 1-3 ids; each operation stamped call/return with a global event counter; "
	core.Register(&core.Profile{Property: "C10", Name: "registry", Weight: 3, Cfg: cfgEngine, Run: runRegistry(true),
		Doc: base + "oracle: porcupine linearizability against 'set of registered ids' (Spawn wins iff absent, StopAndWait removes, GetPID reads), Producer runs once per winning spawn and never for a loser, one ActorDuplicateIdEvent per losing spawn, successive actors under one id never overlap"})
	core.Register(&core.Profile{Property: "C02", Name: "engine-respawn", Weight: 3, Cfg: cfgEngine, Run: runRegistry(true),
		Doc: base + "actors that crash on a message (restart), are stopped while the restart buffer is replayed, and whose id is spawned again meanwhile; oracle for C02: Receive intervals of one actor never overlap, accesses to its state are ordered"})
	core.Register(&core.Profile{Property: "C01", Name: "engine-respawn", Weight: 1, Cfg: cfgEngine, Run: runRegistry(true),
		Doc: base + "ids spawned again after (or while) an earlier actor under the id is stopping (slow Stopped handlers); oracle for C01: at the final quiescent point every actor that was started and never stopped is registered and receives the messages sent to it"})
	core.Register(&core.Profile{Property: "C12", Name: "duplicate-id-events", Weight: 2, Cfg: cfgEngine, Run: runRegistry(false),
		Doc: base + "oracle for C12: exactly one ActorDuplicateIdEvent per losing spawn, however the spawns race"})
	core.Register(&core.Profile{Property: "C10", Name: "duplicates", Weight: 2, Cfg: cfgEngine, Run: runRegistry(false),
		Doc: base + "stop-free: in addition every message sent to the incumbent is delivered exactly once in order (or dead-lettered before the first spawn) however many duplicate spawns race with it"})
}
