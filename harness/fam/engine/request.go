package engine

import (
	"fmt"
	"strings"
	"time"

	"github.com/anthdm/hollywood/actor"

	"verif/harness/core"
	"verif/sim/simrt"
)

// request scenario (C11): 1-4 concurrent requesters, 1-2 responders that reply
// 0, 1 or 2 times after a delay drawn around the timeout on the simulated
// clock, requesters that stall before calling Result so that reply and
// timeout are both ready.

type reqPlan struct {
	target   string
	timeout  time.Duration
	replies  int
	delay    time.Duration // responder sleeps before replying
	stall    time.Duration // requester sleeps between Request and Result
	viaActor bool
}

type reqRec struct {
	plan      reqPlan
	msg       *UMsg
	respPID   *actor.PID
	callAt    int64 // sim time at which Result() was called
	retAt     int64
	retSeq    int
	callSeq   int
	val       any
	err       error
	returned  bool
	regAfter  bool // response PID still registered right after Result returned
}

func runRequest(rc *core.RunCtx) {
	setKnobs(rc)
	g := simrt.G()
	env := NewEnv(rc)
	mon := env.NewMonitor("mon")
	nresp := g.Range(1, 2)
	var targets []string
	for i := 0; i < nresp; i++ {
		sp := &Spec{Kind: "resp", ID: fmt.Sprintf("r%d", i), MaxRestarts: 3, InboxSize: []int{1024, 1, 4}[g.IntN(3)], PanicInit: map[int]bool{}, PanicStarted: map[int]bool{}, PanicStopped: map[int]bool{}}
		env.Spawn(sp)
		targets = append(targets, sp.FullID())
	}
	nreq := 1 + g.Pick(2, 4, 3, 2)
	per := g.Range(1, 3)
	if rc.Tier == "thorough" {
		per = g.Range(1, 5)
	}
	timeouts := []time.Duration{time.Millisecond, 5 * time.Millisecond, 100 * time.Millisecond}
	var recs []*reqRec
	crashes := 0
	// a client that sends the responders ordinary, sender-less messages asking
	// them to "respond": Respond has nobody to answer, and must not answer anyone
	var noise []*UMsg
	var noiseTo []string
	for i, n := 0, g.Pick(5, 2, 2, 1); i < n; i++ {
		m := env.NewMsg("noise", i)
		m.Op, m.K = cRespond, 1
		m.Delay = time.Duration(g.IntN(3)) * time.Millisecond
		noise = append(noise, m)
		noiseTo = append(noiseTo, targets[g.IntN(len(targets))])
	}
	scripts := make([][]*reqRec, nreq)
	for r := range scripts {
		for i := 0; i < per; i++ {
			T := timeouts[g.IntN(len(timeouts))]
			frac := []int{0, 1, 2, 3, 4, 6, 8}[g.IntN(7)] // delay = frac*T/4
			p := reqPlan{target: targets[g.IntN(len(targets))], timeout: T, replies: g.Pick(2, 6, 2), delay: time.Duration(frac) * T / 4}
			p.stall = time.Duration([]int{0, 0, 2, 4, 8}[g.IntN(5)]) * T / 4
			if g.Bool(0.08) {
				p.target = "resp/ghost" // nobody there: must time out
			}
			m := env.NewMsg(fmt.Sprintf("q%d", r), i)
			m.Op = cRespond
			if g.Bool(0.2) {
				p.replies = g.Range(2, 3)
				m.Scatter = true
			}
			m.K = p.replies
			m.Delay = p.delay
			if crashes < 2 && p.target != "resp/ghost" && g.Bool(0.08) {
				// the responder crashes while handling the request: nobody replies
				crashes++
				p.replies = 0
				m.Op, m.K, m.Scatter = cPanic, 0, false
			}
			rec := &reqRec{plan: p, msg: m}
			scripts[r] = append(scripts[r], rec)
			recs = append(recs, rec)
		}
	}
	for r, sc := range scripts {
		var sb strings.Builder
		for _, q := range sc {
			fmt.Fprintf(&sb, "req(%s,%s,T=%v,stall=%v) ", q.plan.target, q.msg, q.plan.timeout, q.plan.stall)
		}
		rc.Scen("requester q%d: %s", r, sb.String())
	}
	rc.PostRun = func(res *simrt.Result) {
		if res.Crash != nil && !res.Crash.Harness {
			rc.Block("process crashed: %s", core.FirstLine(res.Crash.Value))
		}
		if res.EndReason == "steps" {
			rc.Block("step budget exhausted")
		}
	}
	finished := 0
	if len(noise) > 0 {
		rc.Scen("noise client: %v to %v", noise, noiseTo)
		simrt.Go("noise", func() {
			for i, m := range noise {
				env.E.Send(actor.NewPID("local", noiseTo[i]), m)
				simrt.Sleep(time.Duration(1+i) * time.Millisecond)
			}
		})
	}
	// a requester is a client task using Engine.Request, or an actor using
	// Context.Request from inside its Receive; such actors are spawned
	// WithContext(the application's own context), which the application may
	// cancel at any time - that is no business of the requests
	body := func(r int, request func(*actor.PID, any, time.Duration) *actor.Response) {
		for _, q := range scripts[r] {
			env.ev("request", fmt.Sprintf("q%d", r), q.plan.target, q.msg, nil)
			resp := request(actor.NewPID("local", q.plan.target), q.msg, q.plan.timeout)
			q.respPID = resp.PID()
			if q.plan.stall > 0 {
				simrt.Sleep(q.plan.stall)
			}
			q.callAt = simrt.Now()
			q.callSeq = env.ev("result-call", fmt.Sprintf("q%d", r), "", q.msg, nil)
			v, err := resp.Result()
			q.retAt = simrt.Now()
			q.val, q.err, q.returned = v, err, true
			q.regAfter = env.E.Registry.GetPID(kindOf(q.respPID.ID), idOf(q.respPID.ID)) != nil
			q.retSeq = env.ev("result", fmt.Sprintf("q%d", r), fmt.Sprintf("%v/%v", v, err), q.msg, nil)
		}
		finished++
	}
	type startReq struct{}
	inActor := 0
	for r := range scripts {
		r := r
		if g.Bool(0.3) {
			inActor++
			rc.Scen("requester q%d is an actor (Context.Request), spawned WithContext", r)
			pid := env.E.SpawnFunc(func(c *actor.Context) {
				if _, ok := c.Message().(startReq); ok {
					body(r, c.Request)
				}
			}, "requester", actor.WithID(fmt.Sprintf("q%d", r)), actor.WithContext(env.UserContext()))
			env.E.Send(pid, startReq{})
			continue
		}
		simrt.Go(fmt.Sprintf("requester%d", r), func() { body(r, env.E.Request) })
	}
	if inActor > 0 && g.Bool(0.6) {
		at := time.Duration(g.IntN(4)) * time.Millisecond
		rc.Scen("the application cancels its context after %v", at)
		simrt.Go("app-cancels-its-context", func() {
			simrt.Sleep(at)
			simrt.Fault("user-context-cancelled")
			env.UserContext()
			env.CancelUserContext()
		})
	}
	simrt.WaitQuiet(time.Hour)
	if finished != nreq {
		rc.Violate("result-never-returned", "%d of %d requester tasks finished; blocked: %v", finished, nreq, simrt.BlockedTasks())
	}
	dlFor := map[string]int{} // response pid id -> dead letters addressed to it carrying a *Reply
	dlReply := map[int]int{}  // request id -> dead-lettered replies
	for _, dl := range mon.DeadLetters() {
		if rp, ok := dl.Message.(*Reply); ok && dl.Target != nil {
			dlFor[dl.Target.ID]++
			dlReply[rp.Req]++
			for _, m := range noise {
				if m.ID == rp.Req {
					rc.Violate("reply-to-senderless-message", "%s was sent without a sender, yet a reply to it was sent to %s", m, pidStr(dl.Target))
				}
			}
		}
	}
	for _, q := range recs {
		if !q.returned {
			continue
		}
		feat := fmt.Sprintf("replies=%d", q.plan.replies)
		if (q.val == nil) == (q.err == nil) {
			rc.Violate("value-xor-error", "%s: Result() returned (%v, %v)", q.msg, q.val, q.err)
		}
		if q.val != nil {
			rp, ok := q.val.(*Reply)
			if !ok || rp.Req != q.msg.ID {
				rc.Violate("cross-talk", "%s: Result() returned %v, which is not a reply to this request", q.msg, q.val)
			}
			if q.plan.replies == 0 || q.plan.target == "resp/ghost" {
				rc.Violate("reply-from-nowhere", "%s: nobody replied, yet Result() returned %v", q.msg, q.val)
			}
		}
		if q.err != nil {
			if q.retAt < q.callAt+int64(q.plan.timeout) {
				rc.Violate("timeout-early/"+feat, "%s: Result() returned %v after %v, timeout %v", q.msg, q.err, time.Duration(q.retAt-q.callAt), q.plan.timeout)
			}
		} else if q.plan.replies == 0 {
			// covered by reply-from-nowhere
		}
		if q.regAfter || env.E.Registry.GetPID(kindOf(q.respPID.ID), idOf(q.respPID.ID)) != nil {
			won := "reply-won"
			if q.err != nil {
				won = "timeout-won"
			}
			rc.Violate("response-pid-still-registered/"+won, "%s: %s is still registered after Result() returned", q.msg, pidStr(q.respPID))
		}
		// late replies: respond events after Result returned must each dead-letter exactly once
		// (a reply whose Respond call straddles the return of Result may go either way)
		late, early := 0, 0
		for _, e := range env.Evs {
			if e.Msg != q.msg {
				continue
			}
			if e.Kind == "respond" && e.Seq > q.retSeq {
				late++
			}
			if e.Kind == "respond-ret" && e.Seq < q.callSeq {
				early++
			}
		}
		maybe := q.plan.replies - late - early
		if q.plan.target == "resp/ghost" {
			maybe = 0
		}
		if n := dlReply[q.msg.ID]; n < late || n > late+maybe {
			rc.Violate("late-reply-not-dead-lettered", "%s: %d replies were sent after Result() returned (%d more straddled it), %d became dead letters", q.msg, late, maybe, n)
		}
		if q.err == nil && q.plan.replies > 0 {
			simrt.Probe("request-answered")
		}
		if q.err != nil && q.plan.replies > 0 {
			simrt.Probe("request-timed-out-with-late-reply")
		}
	}
	// replies reach nobody else: no scripted actor may receive a *Reply
	for _, d := range env.Dels {
		if d.Kind == dOther && strings.Contains(d.Other, "Reply") {
			rc.Violate("reply-misdelivered", "%s received a %s", d.Actor, d.Other)
		}
	}
	rc.Nontrivial = len(recs) > 1
}

func cfgReq(cfg *simrt.Config, tier string) {
	cfg.MaxSteps = 300_000
	cfg.TimeSkip = true
}

func init() {
	core.Register(&core.Profile{Property: "C11", Name: "request", Weight: 4, Cfg: cfgReq, Run: runRequest,
		Doc: "one real Engine; 1-4 concurrent requester tasks x 1-5 requests with unique payloads to 1-2 responders (or nobody); responder replies 0-3 times (from its Receive or scattered over several tasks) or crashes on the request (restart), a noise client sends sender-less respond commands; replies come after a delay of 0..2x the timeout on the simulated clock; requesters stall 0..2x the timeout before Result() so reply and timeout race (select choice made by the scheduler; clock may jump while tasks are stalled); oracle: Result returns value xor error, a value is a reply to that very request, an error only at simulated time >= call+timeout, Result returns by quiescence, the response PID is unregistered afterwards whichever branch won, each reply sent after Result returned becomes exactly one dead letter and reaches no actor",
		Faults: []string{"late reply", "duplicate reply", "stalled requester", "clock jump while runnable", "request to unknown PID"}})
}
