package engine

import (
	"fmt"
	"strings"
	"time"

	"github.com/anthdm/hollywood/actor"

	"verif/harness/core"
	"verif/sim/simrt"
)

// event-stream scenario (C12): subscribe / unsubscribe / broadcast sequences
// over a pool of subscriber actors whose PID is presented as the same pointer,
// a clone or a freshly built PID; each subscriber has one owner task (the only
// one that subscribes/unsubscribes it), so owner broadcasts are ordered with
// the subscription changes by program order, while other tasks' broadcasts are
// concurrent with them.

type xEvent struct {
	By int
	N  int
}

type esOp struct {
	kind int // 0 subscribe, 1 unsubscribe, 2 broadcast, 3 yield
	sub  int
	form int // 0 original pointer, 1 clone, 2 NewPID(address,id), 3 (unsubscribe only) NewPID(another address, id)
	n    int
}

type subRec struct {
	name string
	pid  *actor.PID
	got  []xEvent
	seqs []int
}

func runEvents(rc *core.RunCtx) {
	setKnobs(rc)
	g := simrt.G()
	env := NewEnv(rc)
	nsub := g.Range(1, 3)
	ntask := 1 + g.Pick(3, 4, 2)
	subs := make([]*subRec, nsub)
	for i := range subs {
		s := &subRec{name: fmt.Sprintf("s%d", i)}
		s.pid = env.E.SpawnFunc(func(c *actor.Context) {
			if e, ok := c.Message().(xEvent); ok {
				s.got = append(s.got, e)
				s.seqs = append(s.seqs, env.tick())
				simrt.Ev("sub %s got x(%d,%d)", s.name, e.By, e.N)
			}
		}, "sub", actor.WithID(s.name))
		subs[i] = s
	}
	owner := make([]int, nsub)
	for i := range owner {
		owner[i] = g.IntN(ntask)
	}
	maxOps := 8
	if rc.Tier == "thorough" {
		maxOps = 16
	}
	scripts := make([][]esOp, ntask)
	bn := make([]int, ntask)
	for t := range scripts {
		n := g.Range(1, maxOps)
		for i := 0; i < n; i++ {
			switch g.Pick(3, 2, 5, 1) {
			case 0, 1:
				// only subscribers owned by this task
				var mine []int
				for s, o := range owner {
					if o == t {
						mine = append(mine, s)
					}
				}
				if len(mine) == 0 {
					scripts[t] = append(scripts[t], esOp{kind: 2, n: bn[t]})
					bn[t]++
					continue
				}
				k := 0
				if g.Bool(0.4) {
					k = 1
				}
				op := esOp{kind: k, sub: mine[g.IntN(len(mine))], form: g.Pick(3, 2, 2)}
				if k == 1 && g.Bool(0.2) {
					// a PID with the same id on another address is another
					// subscriber: unsubscribing it must leave this one alone
					op.form = 3
				}
				scripts[t] = append(scripts[t], op)
			case 2:
				scripts[t] = append(scripts[t], esOp{kind: 2, n: bn[t]})
				bn[t]++
			case 3:
				scripts[t] = append(scripts[t], esOp{kind: 3})
			}
		}
	}
	for t, sc := range scripts {
		var sb strings.Builder
		for _, o := range sc {
			switch o.kind {
			case 0:
				fmt.Fprintf(&sb, "sub(s%d,%s) ", o.sub, [...]string{"ptr", "clone", "newpid", "foreign-twin"}[o.form])
			case 1:
				fmt.Fprintf(&sb, "unsub(s%d,%s) ", o.sub, [...]string{"ptr", "clone", "newpid", "foreign-twin"}[o.form])
			case 2:
				fmt.Fprintf(&sb, "bcast(%d) ", o.n)
			case 3:
				sb.WriteString("yield ")
			}
		}
		rc.Scen("task t%d (owns %v): %s", t, ownedBy(owner, t), sb.String())
	}
	rc.PostRun = func(res *simrt.Result) {
		if res.Crash != nil && !res.Crash.Harness {
			rc.Block("process crashed: %s", core.FirstLine(res.Crash.Value))
		}
		if res.EndReason == "steps" {
			rc.Block("step budget exhausted")
		}
	}
	form := func(s *subRec, f int) *actor.PID {
		switch f {
		case 1:
			return s.pid.CloneVT()
		case 2:
			return actor.NewPID(s.pid.Address, s.pid.ID)
		case 3:
			return actor.NewPID("elsewhere.invalid:4000", s.pid.ID)
		}
		return s.pid
	}
	finished := 0
	for t := range scripts {
		t := t
		simrt.Go(fmt.Sprintf("task%d", t), func() {
			for _, o := range scripts[t] {
				switch o.kind {
				case 0:
					simrt.Ev("t%d subscribe s%d form=%d", t, o.sub, o.form)
					env.E.Subscribe(form(subs[o.sub], o.form))
				case 1:
					simrt.Ev("t%d unsubscribe s%d form=%d", t, o.sub, o.form)
					env.E.Unsubscribe(form(subs[o.sub], o.form))
				case 2:
					simrt.Ev("t%d broadcast %d", t, o.n)
					env.E.BroadcastEvent(xEvent{t, o.n})
				case 3:
					simrt.Yield(simrt.OpUser)
				}
			}
			finished++
		})
	}
	simrt.WaitQuiet(time.Hour)
	if finished != ntask {
		rc.Violate("caller-blocked", "%d of %d tasks finished", finished, ntask)
	}
	// final broadcasts from main: ordered after everything
	final := xEvent{By: 99, N: 0}
	env.E.BroadcastEvent(final)
	simrt.WaitQuiet(time.Hour)

	for si, s := range subs {
		ot := owner[si]
		// owner's view: walk its script
		subscribed := false
		forms := map[string]bool{}
		expectOwner := map[int]bool{} // broadcast n of the owner that must be delivered
		for _, o := range scripts[ot] {
			switch o.kind {
			case 0:
				if o.sub == si {
					subscribed = true
					forms[fmt.Sprintf("sub-%d", o.form)] = true
				}
			case 1:
				if o.sub == si && o.form == 3 {
					// same id, other address: not this subscriber
					forms["unsub-3"] = true
				} else if o.sub == si {
					subscribed = false
					forms[fmt.Sprintf("unsub-%d", o.form)] = true
				}
			case 2:
				expectOwner[o.n] = subscribed
			}
		}
		everSubscribed := false
		for _, o := range scripts[ot] {
			if o.kind == 0 && o.sub == si {
				everSubscribed = true
			}
		}
		mixed := "same-form"
		if len(forms) > 1 || forms["sub-1"] || forms["sub-2"] || forms["unsub-1"] || forms["unsub-2"] {
			mixed = "distinct-pid-objects"
		}
		if forms["unsub-3"] {
			mixed = "same-id-other-address"
		}
		count := map[xEvent]int{}
		lastN := map[int]int{}
		for _, e := range s.got {
			count[e]++
			if p, ok := lastN[e.By]; ok && e.N < p {
				rc.Violate("broadcast-order", "subscriber %s got x(%d,%d) after x(%d,%d)", s.name, e.By, e.N, e.By, p)
			}
			lastN[e.By] = e.N
		}
		for e, n := range count {
			if n > 1 {
				rc.Violate("duplicate-delivery/"+mixed, "subscriber %s got x(%d,%d) %d times", s.name, e.By, e.N, n)
			}
			if !everSubscribed {
				rc.Violate("delivery-without-subscription", "subscriber %s was never subscribed but got x(%d,%d)", s.name, e.By, e.N)
			}
		}
		for n, want := range expectOwner {
			got := count[xEvent{ot, n}]
			if want && got == 0 {
				rc.Violate("missed-while-subscribed/"+mixed, "subscriber %s: broadcast %d of its owner t%d happened after subscribe and before unsubscribe but was not delivered", s.name, n, ot)
			}
			if !want && got > 0 {
				rc.Violate("delivered-while-unsubscribed/"+mixed, "subscriber %s: broadcast %d of its owner t%d happened while unsubscribed but was delivered", s.name, n, ot)
			}
		}
		// final event: exactly once iff subscribed at the end
		gf := count[final]
		if subscribed && gf != 1 {
			rc.Violate("final-event-count/"+mixed, "subscriber %s is subscribed at the end but got the final event %d times", s.name, gf)
		}
		if !subscribed && gf != 0 {
			rc.Violate("delivered-after-unsubscribe/"+mixed, "subscriber %s is unsubscribed at the end but got the final event %d times", s.name, gf)
		}
		if mixed != "same-form" {
			simrt.Probe("equal-pid-in-distinct-objects")
		}
		if forms["unsub-3"] {
			simrt.Probe("unsubscribe-same-id-other-address")
		}
	}
	rc.Nontrivial = true
}

func ownedBy(owner []int, t int) []string {
	var out []string
	for s, o := range owner {
		if o == t {
			out = append(out, fmt.Sprintf("s%d", s))
		}
	}
	return out
}

// lifecycle-event completeness (C12, last sentence): every start, stop,
// restart occurrence in a lifecycle scenario has its event.
func runLifecycleEvents(rc *core.RunCtx) {
	runLifecycle(lcParams{focus: "C12", stops: true, crashes: true, lifeCrashes: true, children: true})(rc)
}

func init() {
	core.Register(&core.Profile{Property: "C12", Name: "lifecycle-events-budget", Weight: 1, Cfg: cfgEngine,
		Run: runLifecycle(lcParams{focus: "C12", crashes: true, lifeCrashes: true, exceed: true}),
		Doc: "the budget scenario of C06 with a monitor (an actor driven beyond its restart budget, also one that never gets through Initialized/Started); oracle: the lifecycle events of 'lifecycle-events', in particular one ActorStoppedEvent for every process that ended"})
	core.Register(&core.Profile{Property: "C12", Name: "eventstream", Weight: 4, Cfg: cfgEngine, Run: runEvents,
		Doc: "one real Engine; 1-3 subscriber actors, 1-3 tasks running subscribe/unsubscribe/broadcast scripts where the subscriber PID is passed as the original pointer, a clone or NewPID(address,id), and some unsubscribes name the same id on another address (a different subscriber: must change nothing); each subscriber is owned by one task so the owner's broadcasts are program-ordered with its subscription changes; a final broadcast after quiescence; oracle: owner broadcasts delivered exactly once iff subscribed at that point, nothing after unsubscribe (by address and id), no duplicates after double subscription, per-broadcaster order, concurrent broadcasts at most once"})
	core.Register(&core.Profile{Property: "C12", Name: "lifecycle-events", Weight: 2, Cfg: cfgEngine, Run: runLifecycleEvents,
		Doc: "the lifecycle scenario of C04 with a monitor; oracle: one ActorInitializedEvent/ActorStartedEvent per handled Initialized/Started, one ActorStoppedEvent per stopped process, one ActorRestartedEvent per restart, one DeadLetterEvent per undeliverable send"})
}
