// Package core is the property-independent part of the harness: profiles,
// run outcomes, replay files and the tape shrinker.
package core

import (
	"encoding/json"
	"fmt"
	"os"
	"sort"
	"strings"
	"time"

	"verif/sim/simrt"
)

// Violation is one oracle clause that failed in one run.
type Violation struct {
	Property string `json:"property"`
	Clause   string `json:"clause"` // stable identifier of what failed (the signature)
	Detail   string `json:"detail"` // human-readable specifics of this run
}

func (v Violation) Sig() string { return v.Property + ":" + v.Clause }

// RunCtx is handed to a profile's Run function (executing as the main task).
type RunCtx struct {
	Property   string
	Profile    string
	Tier       string
	Violations []Violation
	Blocked    []string // another property's defect prevented evaluating this one
	Inconcl    []string // inconclusive (checker timeout etc.); never reported
	Scenario   []string // rendered scenario (always cheap strings)
	Nontrivial bool
	Notes      map[string]int
	// PostRun, if set, is evaluated on the driver after the simulation ended
	// (all tasks killed) with the simulator result available.
	PostRun func(res *simrt.Result)
}

// Violate records a violation of the property under check.
func (rc *RunCtx) Violate(clause, format string, args ...any) {
	rc.Violations = append(rc.Violations, Violation{rc.Property, clause, fmt.Sprintf(format, args...)})
}

// Violate2 records a violation observed for property prop. When prop is the
// property under check it is a violation; otherwise it is only noted (each
// property has its own check, which will report it).
func (rc *RunCtx) Violate2(prop, clause, format string, args ...any) {
	if prop == rc.Property {
		rc.Violations = append(rc.Violations, Violation{prop, clause, fmt.Sprintf(format, args...)})
		return
	}
	rc.Note("other-property:" + prop + ":" + clause)
}

// Block records that a defect belonging to another property prevented
// evaluating this one: the run
// is counted as blocked for the property under check, not as a violation.
func (rc *RunCtx) Block(format string, args ...any) {
	rc.Blocked = append(rc.Blocked, fmt.Sprintf(format, args...))
}

func (rc *RunCtx) Inconclusive(format string, args ...any) {
	rc.Inconcl = append(rc.Inconcl, fmt.Sprintf(format, args...))
}

func (rc *RunCtx) Scen(format string, args ...any) {
	rc.Scenario = append(rc.Scenario, fmt.Sprintf(format, args...))
}

func (rc *RunCtx) Note(k string) {
	if rc.Notes == nil {
		rc.Notes = map[string]int{}
	}
	rc.Notes[k]++
}

// Profile is one way of exercising one property.
type Profile struct {
	Property string
	Name     string
	Weight   int // relative share of runs
	// Thorough-only profiles are skipped in the quick tier.
	ThoroughOnly bool
	// Cfg lets the profile adjust the simulator configuration.
	Cfg func(cfg *simrt.Config, tier string)
	Run func(rc *RunCtx)
	// What the profile covers, for evidence.
	Doc string
	// Faults lists the fault kinds this profile can inject.
	Faults []string
}

var profiles = map[string][]*Profile{}

// Register adds a profile.
func Register(p *Profile) {
	if p.Weight == 0 {
		p.Weight = 1
	}
	profiles[p.Property] = append(profiles[p.Property], p)
}

// Profiles returns the profiles of a property.
func Profiles(prop string) []*Profile { return profiles[prop] }

// Properties returns the ids that have at least one profile.
func Properties() []string {
	var out []string
	for k := range profiles {
		out = append(out, k)
	}
	sort.Strings(out)
	return out
}

// FindProfile looks a profile up by name.
func FindProfile(prop, name string) *Profile {
	for _, p := range profiles[prop] {
		if p.Name == name {
			return p
		}
	}
	return nil
}

// PickProfile maps a run index to a profile (weighted round robin).
func PickProfile(prop, tier string, idx uint64) *Profile {
	var ps []*Profile
	tot := 0
	for _, p := range profiles[prop] {
		if p.ThoroughOnly && tier != "thorough" {
			continue
		}
		ps = append(ps, p)
		tot += p.Weight
	}
	if tot == 0 {
		return nil
	}
	k := int(idx % uint64(tot))
	for _, p := range ps {
		if k < p.Weight {
			return p
		}
		k -= p.Weight
	}
	return ps[0]
}

// Outcome is the result of one executed run.
type Outcome struct {
	Profile    string
	Seed       uint64
	Violations []Violation
	Blocked    []string
	Inconcl    []string
	Scenario   []string
	Nontrivial bool
	Notes      map[string]int
	Sim        *simrt.Result
	Wall       time.Duration
}

// MixSeed derives the seed of run idx from the base seed.
func MixSeed(base uint64, idx uint64) uint64 {
	x := base*0x9e3779b97f4a7c15 + idx*0xbf58476d1ce4e5b9 + 0x94d049bb133111eb
	x ^= x >> 30
	x *= 0xbf58476d1ce4e5b9
	x ^= x >> 27
	x *= 0x94d049bb133111eb
	x ^= x >> 31
	return x
}

// Exec runs one profile once.
func Exec(p *Profile, tier string, cfg simrt.Config) *Outcome {
	if p.Cfg != nil {
		p.Cfg(&cfg, tier)
	}
	rc := &RunCtx{Property: p.Property, Profile: p.Name, Tier: tier}
	t0 := time.Now()
	res := simrt.Run(cfg, func() { p.Run(rc) })
	if rc.PostRun != nil {
		rc.PostRun(res)
	}
	o := &Outcome{Profile: p.Name, Seed: cfg.Seed, Violations: rc.Violations, Blocked: rc.Blocked, Inconcl: rc.Inconcl,
		Scenario: rc.Scenario, Nontrivial: rc.Nontrivial, Notes: rc.Notes, Sim: res, Wall: time.Since(t0)}
	return o
}

// HarnessTrouble reports a problem of the machinery itself in this outcome
// (never a property violation): a panic raised by harness/simulator code or a
// deadlock of the main task.
func (o *Outcome) HarnessTrouble() string {
	if o.Sim.Crash != nil && o.Sim.Crash.Harness {
		return "panic in harness code: " + o.Sim.Crash.Value + "\n" + o.Sim.Crash.Stack
	}
	return ""
}

// ReplayFile is what a VIOLATION line points at.
type ReplayFile struct {
	Property  string      `json:"property"`
	Profile   string      `json:"profile"`
	Tier      string      `json:"tier"`
	Seed      uint64      `json:"seed"`
	Violation Violation   `json:"violation"`
	GenTape   []uint32    `json:"gen_tape"`
	SchedTape []uint32    `json:"sched_tape"`
	Hash      string      `json:"event_log_hash"`
	Steps     uint64      `json:"steps"`
	Scenario  []string    `json:"scenario"`
	Trace     []string    `json:"trace,omitempty"`
	Shrink    *ShrinkInfo `json:"shrink,omitempty"`
	Crash     string      `json:"crash,omitempty"`
	Note      string      `json:"note,omitempty"`
}

type ShrinkInfo struct {
	Attempts     int    `json:"attempts"`
	GenBefore    int    `json:"gen_tape_len_before"`
	SchedBefore  int    `json:"sched_tape_len_before"`
	NonzeroSched int    `json:"sched_nonzero_after"`
	WallMs       int64  `json:"wall_ms"`
	OrigSeed     uint64 `json:"orig_seed"`
}

func (r *ReplayFile) Write(path string) error {
	b, err := json.MarshalIndent(r, "", " ")
	if err != nil {
		return err
	}
	return os.WriteFile(path, b, 0o644)
}

func LoadReplay(path string) (*ReplayFile, error) {
	b, err := os.ReadFile(path)
	if err != nil {
		return nil, err
	}
	r := &ReplayFile{}
	if err := json.Unmarshal(b, r); err != nil {
		return nil, err
	}
	return r, nil
}

// ReplayCfg builds the simulator configuration that re-executes the tapes.
func ReplayCfg(seed uint64, gen, sched []uint32, trace bool) simrt.Config {
	return simrt.Config{Seed: seed, GenTape: gen, SchedTape: sched, ReplayGen: true, ReplaySched: true, Trace: trace}
}

func hasSig(o *Outcome, sig string) *Violation {
	for i := range o.Violations {
		if o.Violations[i].Sig() == sig {
			return &o.Violations[i]
		}
	}
	return nil
}

// Shrink minimises the tapes of a failing run while the same violation
// signature persists. It returns the smallest reproduction found.
func Shrink(p *Profile, tier string, seed uint64, gen, sched []uint32, sig string, budget time.Duration) (g, s []uint32, last *Outcome, info *ShrinkInfo) {
	t0 := time.Now()
	info = &ShrinkInfo{GenBefore: len(gen), SchedBefore: len(sched), OrigSeed: seed}
	deadline := t0.Add(budget)
	try := func(gg, ss []uint32) *Outcome {
		info.Attempts++
		o := Exec(p, tier, ReplayCfg(seed, gg, ss, false))
		if o.HarnessTrouble() != "" {
			return nil
		}
		if hasSig(o, sig) != nil {
			return o
		}
		return nil
	}
	// retry a changed scenario under a few fresh schedules
	tryFresh := func(gg []uint32, k int) *Outcome {
		for i := 0; i < k && time.Now().Before(deadline); i++ {
			info.Attempts++
			cfg := simrt.Config{Seed: MixSeed(seed, uint64(1000+i)), GenTape: gg, ReplayGen: true}
			o := Exec(p, tier, cfg)
			if o.HarnessTrouble() == "" && hasSig(o, sig) != nil {
				return o
			}
		}
		return nil
	}
	cur := try(gen, sched)
	if cur == nil {
		// not reproducible by replay: return as is (caller reports trouble)
		return gen, sched, nil, info
	}
	g, s = cur.Sim.GenTape, cur.Sim.SchedTape
	accept := func(o *Outcome) {
		cur = o
		g, s = o.Sim.GenTape, o.Sim.SchedTape
	}
	timeUp := func() bool { return time.Now().After(deadline) }

	shrinkTape := func(isGen bool) bool {
		improved := false
		get := func() []uint32 {
			if isGen {
				return g
			}
			return s
		}
		attempt := func(cand []uint32) bool {
			var o *Outcome
			if isGen {
				o = try(cand, s)
				if o == nil && len(cand) < len(g) {
					o = tryFresh(cand, 3)
				}
			} else {
				o = try(g, cand)
			}
			if o != nil {
				// accept only if not larger
				nl, cl := len(o.Sim.GenTape)+len(o.Sim.SchedTape), len(g)+len(s)
				if nl < cl || (nl == cl && weight(o.Sim.GenTape)+weight(o.Sim.SchedTape) < weight(g)+weight(s)) {
					accept(o)
					improved = true
					return true
				}
			}
			return false
		}
		// chunk deletion then chunk zeroing, halving chunk sizes
		for size := len(get()); size >= 1 && !timeUp(); size /= 2 {
			for start := 0; start < len(get()) && !timeUp(); {
				t := get()
				end := start + size
				if end > len(t) {
					end = len(t)
				}
				cand := append(append([]uint32{}, t[:start]...), t[end:]...)
				if attempt(cand) {
					continue
				}
				allZero := true
				for _, v := range t[start:end] {
					if v != 0 {
						allZero = false
						break
					}
				}
				if !allZero {
					cand = append([]uint32{}, t...)
					for i := start; i < end; i++ {
						cand[i] = 0
					}
					if attempt(cand) {
						start += size
						continue
					}
				}
				start += size
			}
			if size == 1 {
				break
			}
		}
		// lower individual values
		for i := 0; i < len(get()) && !timeUp(); i++ {
			t := get()
			if i >= len(t) || t[i] == 0 {
				continue
			}
			for _, nv := range []uint32{0, t[i] / 2, t[i] - 1} {
				if nv >= t[i] {
					continue
				}
				cand := append([]uint32{}, t...)
				cand[i] = nv
				if attempt(cand) {
					break
				}
			}
		}
		return improved
	}
	// simplest schedule first
	if o := try(g, nil); o != nil {
		accept(o)
	}
	for round := 0; round < 6 && !timeUp(); round++ {
		a := shrinkTape(true)
		b := shrinkTape(false)
		if !a && !b {
			break
		}
	}
	for _, v := range s {
		if v != 0 {
			info.NonzeroSched++
		}
	}
	info.WallMs = time.Since(t0).Milliseconds()
	return g, s, cur, info
}

func weight(t []uint32) int {
	w := 0
	for _, v := range t {
		w += int(v)
	}
	return w
}

// FirstLine returns the first line of s.
func FirstLine(s string) string {
	if i := strings.IndexByte(s, '\n'); i >= 0 {
		return s[:i]
	}
	return s
}
