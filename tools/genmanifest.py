#!/usr/bin/env python3
# Regenerates MANIFEST.json from tools/claims.json (kept in one place so that
# it is always schema-valid and consistent).
import json, sys
claimed = json.load(open('/verif/tools/claims.json'))
props = [json.loads(l) for l in open('/verif/properties.jsonl')]
checks, na = [], []
for p in props:
    pid = p['id']
    c = claimed.get(pid)
    if not c or not c.get('claimed'):
        na.append({"property_id": pid, "reason": (c or {}).get('reason', 'check not built yet in this session (simulation family pending); see DESIGN.md section 7')})
        continue
    checks.append({
        "property_id": pid,
        "quick_cmd": f"bin/check {pid} quick",
        "thorough_cmd": f"bin/check {pid} thorough",
        "evidence_file": f"/verif/evidence/{pid}.json",
        "replay_cmd_template": "bin/replay {path}",
        "engine": "simcheck",
        "level_claimed": {"category": "exploration", "text": c['level'], "design_ref": c.get('ref', 'DESIGN.md section 7')},
        "level_note": c['note'],
        "technique": c['technique'],
    })
m = {
    "version": 1,
    "setup_cmd": "bin/setup",
    "hooks": {
        "guard": "none in /repo: the seams are compiled into a scratch copy of /repo's working tree by tools/simrewrite at check time (no build tag, no hook code in the repository)",
        "enable": "bin/simbuild <out>: simrewrite /repo -> scratch copy (sync, sync/atomic, time, context, math/rand, runtime, log, net, tls, drpc transport, zeroconf redirected to verif/sim/*; go/chan/select/map-range rewritten), then go build ./cmd/simcheck with a modfile replacing github.com/anthdm/hollywood by the copy",
        "baseline_off_cmd": "cd /repo && GOFLAGS=-mod=mod GOPROXY=off GOSUMDB=off go test -vet=off -count=1 -timeout 25m ./...",
        "source_commits": [],
        "add_only": True
    },
    "engines": [{
        "name": "simcheck",
        "path": "/verif/cmd/simcheck",
        "serves_properties": [c['property_id'] for c in checks],
        "kind_free_text": "deterministic simulation with fault injection: real hollywood code (rewritten only at its nondeterminism seams) under a seeded single-baton scheduler, simulated clock/network/discovery, choice tapes for replay and shrinking, oracles over recorded histories (reference models, porcupine linearizability, vector-clock happens-before)"
    }],
    "checks": checks,
    "not_applicable": na,
    "notes": "Exit codes of every check: 0 held on everything explored (KNOWN-FINDING lines allowed), 1 VIOLATION, 2 machinery trouble (never a verdict). VERIF_SEED selects the base seed, VERIF_BUDGET_S overrides the search budget, VERIF_WORKERS the worker processes (default 16)."
}
json.dump(m, open('/verif/MANIFEST.json', 'w'), indent=1)
print("MANIFEST.json:", len(checks), "checks,", len(na), "not claimed")
