#!/usr/bin/env python3
import json,sys
r=json.load(open(sys.argv[1]))
n=int(sys.argv[2]) if len(sys.argv)>2 else 80
print("VIOL:",r['violation']['clause'],"--",r['violation']['detail'])
for l in r['scenario']: print("SCEN:",l)
print("gen",len(r['gen_tape']),"sched",len(r['sched_tape']),r.get('shrink'))
tr=[l for l in r.get('trace',[]) if 'monitor mon got' not in l or '-v' in sys.argv]
for l in tr[:n]: print(l)
if r.get('crash'): print("CRASH:", r['crash'][:1500])
