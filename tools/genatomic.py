out=['''// Package atomic is the simulator's replacement for sync/atomic: every
// operation is a pre-emption point followed by the real atomic operation, and
// is reported to the happens-before tracker.
package atomic

import (
	realatomic "sync/atomic"
	"unsafe"

	"verif/sim/simrt"
)

func pre(addr unsafe.Pointer) {
	simrt.Yield(simrt.OpAtomic)
	simrt.HBAtomic(uintptr(addr))
}
''']
for T,N in [('int32','Int32'),('int64','Int64'),('uint32','Uint32'),('uint64','Uint64'),('uintptr','Uintptr')]:
    out.append(f'''
func Add{N}(addr *{T}, delta {T}) {T} {{ pre(unsafe.Pointer(addr)); return realatomic.Add{N}(addr, delta) }}
func Load{N}(addr *{T}) {T} {{ pre(unsafe.Pointer(addr)); return realatomic.Load{N}(addr) }}
func Store{N}(addr *{T}, val {T}) {{ pre(unsafe.Pointer(addr)); realatomic.Store{N}(addr, val) }}
func Swap{N}(addr *{T}, new {T}) {T} {{ pre(unsafe.Pointer(addr)); return realatomic.Swap{N}(addr, new) }}
func CompareAndSwap{N}(addr *{T}, old, new {T}) bool {{ pre(unsafe.Pointer(addr)); return realatomic.CompareAndSwap{N}(addr, old, new) }}

type {N} struct {{ v {T} }}

func (x *{N}) Load() {T} {{ return Load{N}(&x.v) }}
func (x *{N}) Store(val {T}) {{ Store{N}(&x.v, val) }}
func (x *{N}) Swap(new {T}) {T} {{ return Swap{N}(&x.v, new) }}
func (x *{N}) CompareAndSwap(old, new {T}) bool {{ return CompareAndSwap{N}(&x.v, old, new) }}
func (x *{N}) Add(delta {T}) {T} {{ return Add{N}(&x.v, delta) }}
''')
    if T!='uintptr':
        out.append(f'''
func And{N}(addr *{T}, mask {T}) {T} {{ pre(unsafe.Pointer(addr)); return realatomic.And{N}(addr, mask) }}
func Or{N}(addr *{T}, mask {T}) {T} {{ pre(unsafe.Pointer(addr)); return realatomic.Or{N}(addr, mask) }}
func (x *{N}) And(mask {T}) {T} {{ return And{N}(&x.v, mask) }}
func (x *{N}) Or(mask {T}) {T} {{ return Or{N}(&x.v, mask) }}
''')
out.append('''
func LoadPointer(addr *unsafe.Pointer) unsafe.Pointer { pre(unsafe.Pointer(addr)); return realatomic.LoadPointer(addr) }
func StorePointer(addr *unsafe.Pointer, val unsafe.Pointer) { pre(unsafe.Pointer(addr)); realatomic.StorePointer(addr, val) }
func SwapPointer(addr *unsafe.Pointer, new unsafe.Pointer) unsafe.Pointer { pre(unsafe.Pointer(addr)); return realatomic.SwapPointer(addr, new) }
func CompareAndSwapPointer(addr *unsafe.Pointer, old, new unsafe.Pointer) bool { pre(unsafe.Pointer(addr)); return realatomic.CompareAndSwapPointer(addr, old, new) }

type Bool struct{ v uint32 }

func b32(b bool) uint32 {
	if b {
		return 1
	}
	return 0
}
func (x *Bool) Load() bool { return LoadUint32(&x.v) != 0 }
func (x *Bool) Store(val bool) { StoreUint32(&x.v, b32(val)) }
func (x *Bool) Swap(new bool) bool { return SwapUint32(&x.v, b32(new)) != 0 }
func (x *Bool) CompareAndSwap(old, new bool) bool { return CompareAndSwapUint32(&x.v, b32(old), b32(new)) }

type Pointer[T any] struct{ p realatomic.Pointer[T] }

func (x *Pointer[T]) Load() *T { pre(unsafe.Pointer(x)); return x.p.Load() }
func (x *Pointer[T]) Store(val *T) { pre(unsafe.Pointer(x)); x.p.Store(val) }
func (x *Pointer[T]) Swap(new *T) *T { pre(unsafe.Pointer(x)); return x.p.Swap(new) }
func (x *Pointer[T]) CompareAndSwap(old, new *T) bool { pre(unsafe.Pointer(x)); return x.p.CompareAndSwap(old, new) }

type Value struct{ v realatomic.Value }

func (x *Value) Load() any { pre(unsafe.Pointer(x)); return x.v.Load() }
func (x *Value) Store(val any) { pre(unsafe.Pointer(x)); x.v.Store(val) }
func (x *Value) Swap(new any) any { pre(unsafe.Pointer(x)); return x.v.Swap(new) }
func (x *Value) CompareAndSwap(old, new any) bool { pre(unsafe.Pointer(x)); return x.v.CompareAndSwap(old, new) }
''')
open('/verif/sim/simatomic/atomic.go','w').write(''.join(out))
