package main

import (
	"go/ast"
	"go/constant"
	"go/token"
	"go/types"

	"golang.org/x/tools/go/ast/astutil"
)

// pre marks the communication operations of select clauses so that the
// generic channel-operation rewrite leaves them to the select rewrite.
func (r *rewriter) pre(c *astutil.Cursor) bool {
	switch n := c.Node().(type) {
	case *ast.SelectStmt:
		for _, cl := range n.Body.List {
			cc := cl.(*ast.CommClause)
			switch s := cc.Comm.(type) {
			case nil:
			case *ast.SendStmt:
				r.skip[s] = true
			case *ast.ExprStmt:
				if u, ok := unparen(s.X).(*ast.UnaryExpr); ok && u.Op == token.ARROW {
					r.skip[u] = true
				}
			case *ast.AssignStmt:
				if len(s.Rhs) == 1 {
					if u, ok := unparen(s.Rhs[0]).(*ast.UnaryExpr); ok && u.Op == token.ARROW {
						r.skip[u] = true
						r.skip[s] = true
					}
				}
			}
		}
	}
	return true
}

func unparen(e ast.Expr) ast.Expr {
	for {
		p, ok := e.(*ast.ParenExpr)
		if !ok {
			return e
		}
		e = p.X
	}
}

func (r *rewriter) post(c *astutil.Cursor) bool {
	switch n := c.Node().(type) {
	case *ast.GoStmt:
		c.Replace(r.rewriteGo(n))
	case *ast.SendStmt:
		if r.skip[n] {
			return true
		}
		r.stats["chan-send"]++
		c.Replace(&ast.ExprStmt{X: r.call("Send", n.Chan, n.Value)})
	case *ast.UnaryExpr:
		if n.Op != token.ARROW || r.skip[n] {
			return true
		}
		// v, ok := <-ch is handled at the assignment
		if as, ok := c.Parent().(*ast.AssignStmt); ok && len(as.Lhs) == 2 && len(as.Rhs) == 1 && as.Rhs[0] == ast.Expr(n) {
			return true
		}
		if vs, ok := c.Parent().(*ast.ValueSpec); ok && len(vs.Names) == 2 && len(vs.Values) == 1 {
			fail("%s: var v, ok = <-ch is not supported", r.pos(n))
		}
		r.stats["chan-recv"]++
		c.Replace(r.call("Recv", n.X))
	case *ast.AssignStmt:
		if r.skip[n] {
			return true
		}
		if len(n.Lhs) == 2 && len(n.Rhs) == 1 {
			if u, ok := unparen(n.Rhs[0]).(*ast.UnaryExpr); ok && u.Op == token.ARROW {
				r.stats["chan-recv"]++
				n.Rhs[0] = r.call("Recv2", u.X)
			}
		}
	case *ast.SelectStmt:
		c.Replace(r.rewriteSelect(n))
	case *ast.RangeStmt:
		if repl := r.rewriteRange(n); repl != nil {
			c.Replace(repl)
		}
	case *ast.CallExpr:
		r.rewriteCall(n)
	}
	return true
}

// rewriteCall caps very large constant inbox sizes (WithInboxSize(1024*1024)).
func (r *rewriter) rewriteCall(n *ast.CallExpr) {
	var name string
	switch f := n.Fun.(type) {
	case *ast.Ident:
		name = f.Name
	case *ast.SelectorExpr:
		name = f.Sel.Name
	}
	if id, ok := n.Fun.(*ast.Ident); ok && id.Name == "close" && len(n.Args) == 1 {
		if _, isBuiltin := r.pkg.TypesInfo.Uses[id].(*types.Builtin); isBuiltin {
			n.Fun = r.simrt("Close")
			r.stats["chan-close"]++
			return
		}
	}
	if name != "WithInboxSize" || len(n.Args) != 1 {
		return
	}
	tv, ok := r.pkg.TypesInfo.Types[n.Args[0]]
	if !ok || tv.Value == nil || tv.Value.Kind() != constant.Int {
		return
	}
	v, exact := constant.Int64Val(tv.Value)
	if !exact || v < 65536 {
		return
	}
	n.Args[0] = r.call("CapInboxSize", n.Args[0])
	r.stats["cap-inbox-size"]++
}

// go f(a, b)  =>  { _a0 := a; _a1 := b; simrt.Go("site", func() { f(_a0, _a1) }) }
func (r *rewriter) rewriteGo(n *ast.GoStmt) ast.Stmt {
	r.stats["go-stmt"]++
	call := n.Call
	var pre []ast.Stmt
	newArgs := make([]ast.Expr, len(call.Args))
	for i, a := range call.Args {
		if tv, ok := r.pkg.TypesInfo.Types[a]; ok && tv.Value != nil {
			newArgs[i] = a // constants stay inline (keeps untyped-ness)
			continue
		}
		if id, ok := a.(*ast.Ident); ok && id.Name == "nil" {
			newArgs[i] = a
			continue
		}
		name := r.fresh("arg")
		pre = append(pre, &ast.AssignStmt{Lhs: []ast.Expr{ast.NewIdent(name)}, Tok: token.DEFINE, Rhs: []ast.Expr{a}})
		newArgs[i] = ast.NewIdent(name)
	}
	if call.Ellipsis.IsValid() {
		// f(xs...) keep
	}
	fun := call.Fun
	// a method value / function variable is evaluated at the go statement
	switch f := fun.(type) {
	case *ast.FuncLit:
	case *ast.Ident:
		_ = f
	default:
		if _, isSel := fun.(*ast.SelectorExpr); isSel {
			// x.m(...) : keep x.m inline (receiver variables are not
			// reassigned between the go statement and the start in this code base)
		}
	}
	newCall := &ast.CallExpr{Fun: fun, Args: newArgs, Ellipsis: call.Ellipsis}
	lit := &ast.FuncLit{
		Type: &ast.FuncType{Params: &ast.FieldList{}},
		Body: &ast.BlockStmt{List: []ast.Stmt{&ast.ExprStmt{X: newCall}}},
	}
	goCall := &ast.ExprStmt{X: r.call("Go", strLit(r.pos(n)), lit)}
	if len(pre) == 0 {
		return goCall
	}
	return &ast.BlockStmt{List: append(pre, goCall)}
}

// rewriteRange handles range over channels and maps.
func (r *rewriter) rewriteRange(n *ast.RangeStmt) ast.Stmt {
	t := r.typeOf(n.X)
	if t == nil {
		return nil
	}
	switch u := t.Underlying().(type) {
	case *types.Chan:
		r.stats["range-chan"]++
		okName := r.fresh("ok")
		var lhs ast.Expr = ast.NewIdent("_")
		tok := token.DEFINE
		if n.Key != nil {
			lhs = n.Key
			tok = n.Tok
			if tok == token.ILLEGAL {
				tok = token.DEFINE
			}
		}
		var recv ast.Stmt
		if tok == token.DEFINE {
			recv = &ast.AssignStmt{Lhs: []ast.Expr{lhs, ast.NewIdent(okName)}, Tok: token.DEFINE, Rhs: []ast.Expr{r.call("Recv2", n.X)}}
		} else {
			// for x = range ch  (assignment form)
			tmp := r.fresh("v")
			recv = &ast.BlockStmt{}
			_ = tmp
			fail("%s: `for x = range ch` (assignment form) is not supported", r.pos(n))
		}
		brk := &ast.IfStmt{Cond: &ast.UnaryExpr{Op: token.NOT, X: ast.NewIdent(okName)}, Body: &ast.BlockStmt{List: []ast.Stmt{&ast.BranchStmt{Tok: token.BREAK}}}}
		body := append([]ast.Stmt{recv, brk}, n.Body.List...)
		return &ast.ForStmt{Body: &ast.BlockStmt{List: body}}
	case *types.Map:
		_ = u
		r.stats["range-map"]++
		if n.Tok == token.ASSIGN {
			fail("%s: `for k, v = range m` (assignment form) is not supported", r.pos(n))
		}
		mName := r.fresh("m")
		kName := r.fresh("k")
		okName := r.fresh("ok")
		var stmts []ast.Stmt
		keyWanted := n.Key != nil && !isBlank(n.Key)
		valWanted := n.Value != nil && !isBlank(n.Value)
		inner := []ast.Stmt{}
		var keyIdent ast.Expr = ast.NewIdent(kName)
		if keyWanted {
			keyIdent = n.Key
		}
		vlhs := ast.Expr(ast.NewIdent("_"))
		if valWanted {
			vlhs = n.Value
		}
		inner = append(inner,
			&ast.AssignStmt{Lhs: []ast.Expr{vlhs, ast.NewIdent(okName)}, Tok: token.DEFINE,
				Rhs: []ast.Expr{&ast.IndexExpr{X: ast.NewIdent(mName), Index: keyIdent}}},
			&ast.IfStmt{Cond: &ast.UnaryExpr{Op: token.NOT, X: ast.NewIdent(okName)},
				Body: &ast.BlockStmt{List: []ast.Stmt{&ast.BranchStmt{Tok: token.CONTINUE}}}},
		)
		inner = append(inner, n.Body.List...)
		loop := &ast.RangeStmt{
			Key:   ast.NewIdent("_"),
			Value: keyIdent,
			Tok:   token.DEFINE,
			X:     r.call("MapKeys", ast.NewIdent(mName)),
			Body:  &ast.BlockStmt{List: inner},
		}
		stmts = append(stmts,
			&ast.AssignStmt{Lhs: []ast.Expr{ast.NewIdent(mName)}, Tok: token.DEFINE, Rhs: []ast.Expr{n.X}},
			loop)
		return &ast.BlockStmt{List: stmts}
	}
	return nil
}

func isBlank(e ast.Expr) bool {
	id, ok := e.(*ast.Ident)
	return ok && id.Name == "_"
}

// rewriteSelect turns a select into a scheduler-driven poll loop.
func (r *rewriter) rewriteSelect(n *ast.SelectStmt) ast.Stmt {
	r.stats["select"]++
	if len(n.Body.List) == 0 {
		return &ast.ExprStmt{X: r.call("ParkForever")}
	}
	// an unlabelled continue inside a clause body would bind to our poll loop
	// instead of the caller's loop: it becomes "remember, leave the poll loop,
	// continue from outside it"
	contName, loopLabel := "", ""
	for _, cl := range n.Body.List {
		cc := cl.(*ast.CommClause)
		for _, s := range cc.Body {
			if hasBareContinue(s) {
				contName, loopLabel = r.fresh("cont"), r.fresh("poll")
			}
		}
	}
	if contName != "" {
		r.stats["select-continue"]++
		for _, cl := range n.Body.List {
			cc := cl.(*ast.CommClause)
			for i, st := range cc.Body {
				cc.Body[i] = astutil.Apply(st, func(c *astutil.Cursor) bool {
					switch x := c.Node().(type) {
					case *ast.ForStmt, *ast.RangeStmt, *ast.FuncLit:
						return false
					case *ast.BranchStmt:
						if x.Tok == token.CONTINUE && x.Label == nil {
							c.Replace(&ast.BlockStmt{List: []ast.Stmt{
								&ast.AssignStmt{Lhs: []ast.Expr{ast.NewIdent(contName)}, Tok: token.ASSIGN, Rhs: []ast.Expr{ast.NewIdent("true")}},
								&ast.BranchStmt{Tok: token.BREAK, Label: ast.NewIdent(loopLabel)},
							}})
						}
					}
					return true
				}, nil).(ast.Stmt)
			}
		}
	}
	selName := r.fresh("sel")
	ncomm := 0
	hasDef := false
	for _, cl := range n.Body.List {
		if cl.(*ast.CommClause).Comm == nil {
			hasDef = true
		} else {
			ncomm++
		}
	}
	cont := func() ast.Stmt {
		return &ast.BranchStmt{Tok: token.CONTINUE}
	}
	var cases []ast.Stmt
	idx := 0
	for _, cl := range n.Body.List {
		cc := cl.(*ast.CommClause)
		var body []ast.Stmt
		var label ast.Expr
		switch s := cc.Comm.(type) {
		case nil:
			label = &ast.UnaryExpr{Op: token.SUB, X: intLit(1)}
		case *ast.SendStmt:
			label = intLit(idx)
			idx++
			body = append(body, &ast.IfStmt{
				Cond: &ast.UnaryExpr{Op: token.NOT, X: r.call("TrySend", s.Chan, s.Value)},
				Body: &ast.BlockStmt{List: []ast.Stmt{cont()}},
			})
		case *ast.ExprStmt:
			label = intLit(idx)
			idx++
			u := unparen(s.X).(*ast.UnaryExpr)
			got := r.fresh("got")
			body = append(body,
				&ast.AssignStmt{Lhs: []ast.Expr{ast.NewIdent("_"), ast.NewIdent(got)}, Tok: token.DEFINE, Rhs: []ast.Expr{r.call("TryRecv", u.X)}},
				&ast.IfStmt{Cond: &ast.UnaryExpr{Op: token.NOT, X: ast.NewIdent(got)}, Body: &ast.BlockStmt{List: []ast.Stmt{cont()}}},
			)
		case *ast.AssignStmt:
			label = intLit(idx)
			idx++
			u := unparen(s.Rhs[0]).(*ast.UnaryExpr)
			got := r.fresh("got")
			if s.Tok == token.DEFINE {
				lhs := append([]ast.Expr{}, s.Lhs...)
				fn := "TryRecv"
				if len(lhs) == 2 {
					fn = "TryRecv2"
				}
				lhs = append(lhs, ast.NewIdent(got))
				body = append(body,
					&ast.AssignStmt{Lhs: lhs, Tok: token.DEFINE, Rhs: []ast.Expr{r.call(fn, u.X)}},
					&ast.IfStmt{Cond: &ast.UnaryExpr{Op: token.NOT, X: ast.NewIdent(got)}, Body: &ast.BlockStmt{List: []ast.Stmt{cont()}}},
				)
				// silence "declared and not used" for variables the body ignores
				for _, l := range s.Lhs {
					if !isBlank(l) {
						body = append(body, &ast.AssignStmt{Lhs: []ast.Expr{ast.NewIdent("_")}, Tok: token.ASSIGN, Rhs: []ast.Expr{l}})
					}
				}
			} else {
				tmps := []ast.Expr{}
				for range s.Lhs {
					tmps = append(tmps, ast.NewIdent(r.fresh("v")))
				}
				fn := "TryRecv"
				if len(s.Lhs) == 2 {
					fn = "TryRecv2"
				}
				body = append(body,
					&ast.AssignStmt{Lhs: append(append([]ast.Expr{}, tmps...), ast.NewIdent(got)), Tok: token.DEFINE, Rhs: []ast.Expr{r.call(fn, u.X)}},
					&ast.IfStmt{Cond: &ast.UnaryExpr{Op: token.NOT, X: ast.NewIdent(got)}, Body: &ast.BlockStmt{List: []ast.Stmt{cont()}}},
					&ast.AssignStmt{Lhs: s.Lhs, Tok: token.ASSIGN, Rhs: tmps},
				)
			}
		}
		body = append(body, cc.Body...)
		cases = append(cases, &ast.CaseClause{List: []ast.Expr{label}, Body: body})
	}
	sw := &ast.SwitchStmt{
		Tag:  &ast.CallExpr{Fun: &ast.SelectorExpr{X: ast.NewIdent(selName), Sel: ast.NewIdent("Next")}},
		Body: &ast.BlockStmt{List: cases},
	}
	loopBody := []ast.Stmt{sw}
	if !allTerminate(n) {
		loopBody = append(loopBody, &ast.BranchStmt{Tok: token.BREAK})
	}
	loop := &ast.ForStmt{Body: &ast.BlockStmt{List: loopBody}}
	def := ast.NewIdent("false")
	if hasDef {
		def = ast.NewIdent("true")
	}
	init := &ast.AssignStmt{Lhs: []ast.Expr{ast.NewIdent(selName)}, Tok: token.DEFINE, Rhs: []ast.Expr{r.call("Select", intLit(ncomm), def)}}
	if contName != "" {
		// (the block keeps the helper variables out of the caller's scope; the
		// trailing continue sits outside the poll loop, i.e. in the caller's loop)
		return &ast.BlockStmt{List: []ast.Stmt{
			init,
			&ast.AssignStmt{Lhs: []ast.Expr{ast.NewIdent(contName)}, Tok: token.DEFINE, Rhs: []ast.Expr{ast.NewIdent("false")}},
			&ast.LabeledStmt{Label: ast.NewIdent(loopLabel), Stmt: loop},
			&ast.IfStmt{Cond: ast.NewIdent(contName), Body: &ast.BlockStmt{List: []ast.Stmt{&ast.BranchStmt{Tok: token.CONTINUE}}}},
		}}
	}
	return &ast.BlockStmt{List: []ast.Stmt{init, loop}}
}

// hasBareContinue reports an unlabelled continue that is not nested in a loop
// of its own.
func hasBareContinue(s ast.Stmt) bool {
	found := false
	var visit func(n ast.Node) bool
	visit = func(n ast.Node) bool {
		switch x := n.(type) {
		case *ast.ForStmt, *ast.RangeStmt, *ast.FuncLit:
			return false
		case *ast.BranchStmt:
			if x.Tok == token.CONTINUE && x.Label == nil {
				found = true
			}
		}
		return true
	}
	ast.Inspect(s, visit)
	return found
}

// allTerminate reports whether every clause of the select ends in a return or
// a panic call, in which case the select is a terminating statement and so
// must its replacement be.
func allTerminate(n *ast.SelectStmt) bool {
	for _, cl := range n.Body.List {
		cc := cl.(*ast.CommClause)
		if len(cc.Body) == 0 {
			return false
		}
		switch last := cc.Body[len(cc.Body)-1].(type) {
		case *ast.ReturnStmt:
		case *ast.ExprStmt:
			call, ok := last.X.(*ast.CallExpr)
			if !ok {
				return false
			}
			if id, ok := call.Fun.(*ast.Ident); !ok || id.Name != "panic" {
				return false
			}
		default:
			return false
		}
		// a break inside the body would leave the select
		hasBreak := false
		for _, s := range cc.Body {
			ast.Inspect(s, func(x ast.Node) bool {
				switch b := x.(type) {
				case *ast.ForStmt, *ast.RangeStmt, *ast.SwitchStmt, *ast.TypeSwitchStmt, *ast.SelectStmt, *ast.FuncLit:
					return false
				case *ast.BranchStmt:
					if b.Tok == token.BREAK && b.Label == nil {
						hasBreak = true
					}
				}
				return true
			})
		}
		if hasBreak {
			return false
		}
	}
	return true
}
