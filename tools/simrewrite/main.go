// simrewrite copies a hollywood source tree to a scratch directory and compiles
// the simulator's seams into the copy: package redirection (sync, sync/atomic,
// time, context, math/rand, runtime, log, net, crypto/tls, drpc transport,
// zeroconf), `go` statements, channel operations, select, range over map, and
// a few tuning knobs. /repo itself is never modified.
//
// Exit status: 0 ok, 2 anything it cannot handle (never reported as a
// property violation).
package main

import (
	"bytes"
	"flag"
	"fmt"
	"go/ast"
	"go/constant"
	"go/format"
	"go/token"
	"go/types"
	"io"
	"os"
	"path/filepath"
	"sort"
	"strconv"
	"strings"

	"golang.org/x/tools/go/ast/astutil"
	"golang.org/x/tools/go/packages"
)

// import path -> replacement. The replacement packages declare the same
// package name as the original, so unnamed imports keep working.
var redirect = map[string]string{
	"sync":                          "verif/sim/simsync",
	"sync/atomic":                   "verif/sim/simatomic",
	"time":                          "verif/sim/simtime",
	"context":                       "verif/sim/simctx",
	"math/rand":                     "verif/sim/simrand",
	"runtime":                       "verif/sim/simruntime",
	"log":                           "verif/sim/simlog",
	"net":                           "verif/sim/simnet",
	"crypto/tls":                    "verif/sim/simtls",
	"storj.io/drpc/drpcconn":        "verif/sim/simdrpc/drpcconn",
	"storj.io/drpc/drpcserver":      "verif/sim/simdrpc/drpcserver",
	"storj.io/drpc/drpcmanager":     "verif/sim/simdrpc/drpcmanager",
	"storj.io/drpc/drpcwire":        "verif/sim/simdrpc/drpcwire",
	"github.com/grandcat/zeroconf":  "verif/sim/simzeroconf",
}

// files that are not part of the simulated system (need an external service,
// anchored by no property) and are left out of the copy.
var dropFiles = map[string]bool{
	"cluster/consul_provider.go": true,
}

// knob constants: pkgname.constname
var knobConsts = map[string]bool{
	"actor.messageBatchSize":       true,
	"actor.defaultThroughput":      true,
	"actor.defaultInboxSize":       true,
	"remote.streamWriterBatchSize": true,
}

const simrtPath = "verif/sim/simrt"

func fail(format string, args ...any) {
	fmt.Fprintf(os.Stderr, "simrewrite: "+format+"\n", args...)
	os.Exit(2)
}

func main() {
	src := flag.String("src", "/repo", "hollywood source tree")
	dst := flag.String("dst", "", "destination directory (created)")
	verbose := flag.Bool("v", false, "verbose")
	flag.Parse()
	if *dst == "" {
		fail("missing -dst")
	}
	absSrc, _ := filepath.Abs(*src)
	absDst, _ := filepath.Abs(*dst)
	for _, bad := range []string{"/repo", "/verif"} {
		if absDst == bad || strings.HasPrefix(absDst, bad+"/") {
			fail("destination must be outside %s", bad)
		}
	}
	if err := os.MkdirAll(absDst, 0o755); err != nil {
		fail("%v", err)
	}
	for _, f := range []string{"go.mod", "go.sum"} {
		if err := copyFile(filepath.Join(absSrc, f), filepath.Join(absDst, f)); err != nil {
			fail("copy %s: %v", f, err)
		}
	}
	// packages to load: every top-level directory except examples, hidden and
	// underscore directories.
	ents, err := os.ReadDir(absSrc)
	if err != nil {
		fail("%v", err)
	}
	var patterns []string
	for _, e := range ents {
		n := e.Name()
		if !e.IsDir() || n == "examples" || strings.HasPrefix(n, ".") || strings.HasPrefix(n, "_") {
			continue
		}
		if hasGo(filepath.Join(absSrc, n)) {
			patterns = append(patterns, "./"+n+"/...")
		}
	}
	if hasGoTop(absSrc) {
		patterns = append(patterns, ".")
	}
	cfg := &packages.Config{
		Mode: packages.NeedName | packages.NeedFiles | packages.NeedCompiledGoFiles | packages.NeedSyntax |
			packages.NeedTypes | packages.NeedTypesInfo | packages.NeedImports | packages.NeedDeps,
		Dir:   absSrc,
		Tests: false,
		Env:   append(os.Environ(), "GOFLAGS=-mod=mod", "GOPROXY=off", "GOSUMDB=off", "GOTOOLCHAIN=local"),
	}
	pkgs, err := packages.Load(cfg, patterns...)
	if err != nil {
		fail("load: %v", err)
	}
	nerr := 0
	for _, p := range pkgs {
		for _, e := range p.Errors {
			fmt.Fprintf(os.Stderr, "simrewrite: %s: %v\n", p.PkgPath, e)
			nerr++
		}
	}
	if nerr > 0 {
		fail("the source tree does not type-check (%d errors)", nerr)
	}
	stats := map[string]int{}
	for _, p := range pkgs {
		for i, f := range p.Syntax {
			name := p.CompiledGoFiles[i]
			rel, err := filepath.Rel(absSrc, name)
			if err != nil || strings.HasPrefix(rel, "..") {
				fail("file outside tree: %s", name)
			}
			if dropFiles[filepath.ToSlash(rel)] {
				stats["dropped-file"]++
				continue
			}
			out := filepath.Join(absDst, rel)
			if err := os.MkdirAll(filepath.Dir(out), 0o755); err != nil {
				fail("%v", err)
			}
			if isGenerated(f) {
				if err := copyFile(name, out); err != nil {
					fail("%v", err)
				}
				stats["copied-generated"]++
				continue
			}
			rw := &rewriter{pkg: p, file: f, fset: p.Fset, stats: stats, rel: rel}
			data := rw.run()
			if err := os.WriteFile(out, data, 0o644); err != nil {
				fail("%v", err)
			}
			stats["rewritten-file"]++
		}
	}
	if *verbose {
		keys := make([]string, 0, len(stats))
		for k := range stats {
			keys = append(keys, k)
		}
		sort.Strings(keys)
		for _, k := range keys {
			fmt.Printf("simrewrite: %-28s %d\n", k, stats[k])
		}
	}
	// stats file for evidence
	var sb strings.Builder
	keys := make([]string, 0, len(stats))
	for k := range stats {
		keys = append(keys, k)
	}
	sort.Strings(keys)
	for _, k := range keys {
		fmt.Fprintf(&sb, "%s %d\n", k, stats[k])
	}
	_ = os.WriteFile(filepath.Join(absDst, "SIMREWRITE_STATS"), []byte(sb.String()), 0o644)
}

func hasGo(dir string) bool {
	found := false
	filepath.WalkDir(dir, func(p string, d os.DirEntry, err error) error {
		if err == nil && !d.IsDir() && strings.HasSuffix(p, ".go") && !strings.HasSuffix(p, "_test.go") {
			found = true
			return filepath.SkipAll
		}
		return nil
	})
	return found
}

func hasGoTop(dir string) bool {
	ents, _ := os.ReadDir(dir)
	for _, e := range ents {
		if !e.IsDir() && strings.HasSuffix(e.Name(), ".go") && !strings.HasSuffix(e.Name(), "_test.go") {
			return true
		}
	}
	return false
}

func copyFile(a, b string) error {
	in, err := os.Open(a)
	if err != nil {
		return err
	}
	defer in.Close()
	out, err := os.Create(b)
	if err != nil {
		return err
	}
	defer out.Close()
	_, err = io.Copy(out, in)
	return err
}

func isGenerated(f *ast.File) bool {
	for _, cg := range f.Comments {
		if cg.Pos() > f.Package {
			break
		}
		for _, c := range cg.List {
			if strings.HasPrefix(c.Text, "// Code generated") && strings.HasSuffix(c.Text, "DO NOT EDIT.") {
				return true
			}
		}
	}
	return false
}

type rewriter struct {
	pkg       *packages.Package
	file      *ast.File
	fset      *token.FileSet
	stats     map[string]int
	rel       string
	needSimrt bool
	skip      map[ast.Node]bool
	tmp       int
	knobInits []string // generated init statements
	knobDecls []string // generated var declarations
}

func (r *rewriter) pos(n ast.Node) string {
	p := r.fset.Position(n.Pos())
	return fmt.Sprintf("%s:%d", r.rel, p.Line)
}

func (r *rewriter) simrt(name string) ast.Expr {
	r.needSimrt = true
	return &ast.SelectorExpr{X: ast.NewIdent("simrt"), Sel: ast.NewIdent(name)}
}

func (r *rewriter) call(name string, args ...ast.Expr) *ast.CallExpr {
	return &ast.CallExpr{Fun: r.simrt(name), Args: args}
}

func (r *rewriter) fresh(prefix string) string {
	r.tmp++
	return fmt.Sprintf("_sim%s%d", prefix, r.tmp)
}

func strLit(s string) ast.Expr { return &ast.BasicLit{Kind: token.STRING, Value: strconv.Quote(s)} }
func intLit(i int) ast.Expr    { return &ast.BasicLit{Kind: token.INT, Value: strconv.Itoa(i)} }

func (r *rewriter) typeOf(e ast.Expr) types.Type {
	if tv, ok := r.pkg.TypesInfo.Types[e]; ok {
		return tv.Type
	}
	return nil
}

func (r *rewriter) run() []byte {
	f := r.file
	r.skip = map[ast.Node]bool{}

	// keep only comments before the package clause (build constraints, doc)
	var keep []*ast.CommentGroup
	for _, cg := range f.Comments {
		if cg.End() < f.Package {
			keep = append(keep, cg)
		}
	}
	f.Comments = keep
	ast.Inspect(f, func(n ast.Node) bool {
		switch x := n.(type) {
		case *ast.FuncDecl:
			x.Doc = nil
		case *ast.GenDecl:
			x.Doc = nil
		case *ast.Field:
			x.Doc, x.Comment = nil, nil
		case *ast.ValueSpec:
			x.Doc, x.Comment = nil, nil
		case *ast.TypeSpec:
			x.Doc, x.Comment = nil, nil
		case *ast.ImportSpec:
			x.Doc, x.Comment = nil, nil
		}
		return true
	})

	// 1. import redirection
	for _, imp := range f.Imports {
		p, _ := strconv.Unquote(imp.Path.Value)
		if to, ok := redirect[p]; ok {
			imp.Path.Value = strconv.Quote(to)
			r.stats["import:"+p]++
		}
		if p == "os" {
			// os.Exit would kill the simulator; flag it (none today)
			ast.Inspect(f, func(n ast.Node) bool {
				if se, ok := n.(*ast.SelectorExpr); ok {
					if id, ok := se.X.(*ast.Ident); ok && id.Name == "os" && se.Sel.Name == "Exit" {
						fail("%s: os.Exit is not supported by the simulation build", r.pos(se))
					}
				}
				return true
			})
		}
	}

	// 2. knobs (before the generic walk; operates on declarations)
	r.rewriteKnobs()

	// 3. statements and expressions
	astutil.Apply(f, r.pre, r.post)

	if r.needSimrt {
		astutil.AddNamedImport(r.fset, f, "simrt", simrtPath)
	}
	var buf bytes.Buffer
	if err := format.Node(&buf, r.fset, f); err != nil {
		fail("%s: print: %v", r.rel, err)
	}
	for _, d := range r.knobDecls {
		buf.WriteString("\n" + d + "\n")
	}
	if len(r.knobInits) > 0 {
		buf.WriteString("\nfunc init() {\n")
		for _, s := range r.knobInits {
			buf.WriteString("\t" + s + "\n")
		}
		buf.WriteString("}\n")
	}
	out, err := format.Source(buf.Bytes())
	if err != nil {
		os.WriteFile("/tmp/simrewrite-bad.go", buf.Bytes(), 0o644)
		fail("%s: rewritten file does not parse: %v (see /tmp/simrewrite-bad.go)", r.rel, err)
	}
	return out
}

// rewriteKnobs turns selected untyped constants into registered variables.
func (r *rewriter) rewriteKnobs() {
	info := r.pkg.TypesInfo
	for _, d := range r.file.Decls {
		gd, ok := d.(*ast.GenDecl)
		if !ok || gd.Tok != token.CONST {
			continue
		}
		var keepSpecs []ast.Spec
		for _, s := range gd.Specs {
			vs := s.(*ast.ValueSpec)
			if len(vs.Names) != 1 || len(vs.Values) != 1 || !knobConsts[r.pkg.Name+"."+vs.Names[0].Name] {
				keepSpecs = append(keepSpecs, s)
				continue
			}
			obj, _ := info.Defs[vs.Names[0]].(*types.Const)
			if obj == nil || obj.Val().Kind() != constant.Int {
				keepSpecs = append(keepSpecs, s)
				continue
			}
			// uses iota?
			usesIota := false
			ast.Inspect(vs.Values[0], func(n ast.Node) bool {
				if id, ok := n.(*ast.Ident); ok && id.Name == "iota" {
					usesIota = true
				}
				return true
			})
			if usesIota {
				keepSpecs = append(keepSpecs, s)
				continue
			}
			// the type every use converts to must be unique; uses in other
			// files of the package count too.
			var ut types.Type
			okType := true
			for id, o := range info.Uses {
				if o != obj {
					continue
				}
				tv, found := info.Types[ast.Expr(id)]
				if !found {
					okType = false
					break
				}
				t := tv.Type
				if b, isB := t.(*types.Basic); isB && b.Info()&types.IsUntyped != 0 {
					okType = false // part of a larger constant expression
					break
				}
				if ut == nil {
					ut = t
				} else if !types.Identical(ut, t) {
					okType = false
					break
				}
			}
			if !okType || ut == nil {
				r.stats["knob-skipped:"+obj.Name()]++
				keepSpecs = append(keepSpecs, s)
				continue
			}
			b, isBasic := ut.(*types.Basic)
			if !isBasic || b.Info()&types.IsInteger == 0 {
				r.stats["knob-skipped:"+obj.Name()]++
				keepSpecs = append(keepSpecs, s)
				continue
			}
			name := vs.Names[0].Name
			val := obj.Val().ExactString()
			r.knobDecls = append(r.knobDecls, fmt.Sprintf("var %s %s = %s", name, b.Name(), val))
			r.knobInits = append(r.knobInits, fmt.Sprintf("simrt.RegisterKnob(%q, &%s)", r.pkg.Name+"."+name, name))
			r.needSimrt = true
			r.stats["knob:"+r.pkg.Name+"."+name]++
		}
		gd.Specs = keepSpecs
	}
	// drop emptied const declarations
	var decls []ast.Decl
	for _, d := range r.file.Decls {
		if gd, ok := d.(*ast.GenDecl); ok && gd.Tok == token.CONST && len(gd.Specs) == 0 {
			continue
		}
		decls = append(decls, d)
	}
	r.file.Decls = decls
}
