module verif

go 1.26.0

require (
	github.com/anishathalye/porcupine v1.3.0
	github.com/anthdm/hollywood v0.0.0
	golang.org/x/tools v0.50.0
)

require (
	golang.org/x/mod v0.41.0 // indirect
	golang.org/x/sync v0.23.0 // indirect
)

// The checks never build against this path: bin/simbuild generates a modfile
// whose replace points at a freshly rewritten scratch copy of /repo's working
// tree. This line only keeps plain `go vet`/editors working.
replace github.com/anthdm/hollywood => /repo
