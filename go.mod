module verif

go 1.26

require (
	github.com/anishathalye/porcupine v1.3.0
	github.com/anthdm/hollywood v0.0.0
	storj.io/drpc v0.0.33
)

require github.com/zeebo/errs v1.2.2 // indirect

// The checks never build against this path: bin/simbuild generates a modfile
// whose replace points at a freshly rewritten scratch copy of /repo's working
// tree. This line only keeps plain `go vet`/editors working.
replace github.com/anthdm/hollywood => /repo
