# sourced by every entry point
export GOFLAGS=-mod=mod GOPROXY=off GOSUMDB=off GOTOOLCHAIN=local GONOSUMDB=* GONOSUMCHECK=1 GOFLAGS=-mod=mod
export VERIF_ROOT=${VERIF_ROOT:-/verif}
export VERIF_REPO=${VERIF_REPO:-/repo}
export VERIF_SCRATCH=${VERIF_SCRATCH:-/dev/shm}
[ -d "$VERIF_SCRATCH" ] && [ -w "$VERIF_SCRATCH" ] || export VERIF_SCRATCH=${TMPDIR:-/var/tmp}
GO=go1.26.8
command -v $GO >/dev/null 2>&1 || GO=/opt/veriftools/go1.26.8/bin/go
export GO
