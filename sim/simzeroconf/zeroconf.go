// Package zeroconf stands in for github.com/grandcat/zeroconf (mDNS): an
// in-simulator registry of announced instances; Browse delivers an entry for
// every announced instance (including the browser's own, as real mDNS does)
// after a simulated delay and closes the channel when its context ends.
package zeroconf

import (
	"context"
	realnet "net"
	"time"

	"verif/sim/simrt"
)

type ServiceRecord struct {
	Instance string
	Service  string
	Domain   string
}

type ServiceEntry struct {
	ServiceRecord
	HostName string
	Port     int
	Text     []string
	TTL      uint32
	AddrIPv4 []realnet.IP
	AddrIPv6 []realnet.IP
}

type ClientOption func(*struct{})

type Resolver struct{}

func NewResolver(options ...ClientOption) (*Resolver, error) { return &Resolver{}, nil }

type registry struct {
	announced []*Server
	version   int
	// Delay bounds for discovery (index into delays, chosen per delivery)
	MaxDelay int
	// Manual: nothing is discovered by itself; the harness calls Deliver.
	Manual  bool
	manualQ map[int][]*Server
}

var delays = []time.Duration{0, time.Millisecond, 20 * time.Millisecond, 300 * time.Millisecond}

func reg() *registry {
	return simrt.Local("simzeroconf", func() any { return &registry{MaxDelay: 3, manualQ: map[int][]*Server{}} }).(*registry)
}

// SetManual switches discovery of the current run to harness-driven delivery
// (mDNS is multicast over UDP: who hears whom, and when, is arbitrary).
func SetManual(on bool) { reg().Manual = on }

// Deliver lets the browser running on node hear the announcement of instance;
// it reports whether such an announcement exists.
func Deliver(node int, instance string) bool {
	r := reg()
	for i := len(r.announced) - 1; i >= 0; i-- {
		s := r.announced[i]
		if s.entry.Instance == instance && !s.down && !simrt.NodeDown(s.node) {
			r.manualQ[node] = append(r.manualQ[node], s)
			r.version++
			simrt.ChanEvent()
			return true
		}
	}
	return false
}

// Server is an announced instance.
type Server struct {
	entry *ServiceEntry
	node  int
	down  bool
}

func RegisterProxy(instance, service, domain string, port int, host string, ips []string, text []string, ifaces []realnet.Interface) (*Server, error) {
	simrt.Yield(simrt.OpNet)
	e := &ServiceEntry{ServiceRecord: ServiceRecord{Instance: instance, Service: service, Domain: domain}, HostName: host, Port: port, Text: text}
	for _, ip := range ips {
		if p := realnet.ParseIP(ip); p != nil {
			e.AddrIPv4 = append(e.AddrIPv4, p)
		}
	}
	s := &Server{entry: e, node: simrt.Cur().Node}
	r := reg()
	r.announced = append(r.announced, s)
	r.version++
	simrt.ChanEvent()
	return s, nil
}

func (s *Server) Shutdown() {
	if s == nil {
		return
	}
	simrt.Yield(simrt.OpNet)
	s.down = true
	reg().version++
	simrt.ChanEvent()
}

func (r *Resolver) Browse(ctx context.Context, service, domain string, entries chan<- *ServiceEntry) error {
	simrt.Yield(simrt.OpNet)
	rg := reg()
	node := simrt.Cur().Node
	simrt.Go("zeroconf-browse", func() {
		seen := map[*Server]bool{}
		defer func() { close(entries); simrt.ChanEvent() }()
		for {
			if ctx.Err() != nil {
				return
			}
			var next *Server
			if rg.Manual {
				// the harness decides who hears whose announcement, and when
				q := rg.manualQ[node]
				if len(q) > 0 {
					next = q[0]
					rg.manualQ[node] = q[1:]
					delete(seen, next)
				}
			} else {
				for _, s := range rg.announced {
					if !seen[s] && !s.down && !simrt.NodeDown(s.node) && s.entry.Service == service {
						next = s
						break
					}
				}
			}
			if next == nil {
				v := rg.version
				// wait for a new announcement or the end of the context
				for rg.version == v && ctx.Err() == nil {
					simrt.Poll("zeroconf-browse")
				}
				continue
			}
			seen[next] = true
			if d := delays[simrt.IntN(rg.MaxDelay+1)]; d > 0 {
				simrt.Sleep(d)
			}
			if ctx.Err() != nil || simrt.NodeDown(node) {
				return
			}
			e := *next.entry
			simrt.Send(entries, &e)
		}
	})
	return nil
}
