// Package atomic is the simulator's replacement for sync/atomic: every
// operation is a pre-emption point followed by the real atomic operation, and
// is reported to the happens-before tracker.
package atomic

import (
	realatomic "sync/atomic"
	"unsafe"

	"verif/sim/simrt"
)

func pre(addr unsafe.Pointer) {
	simrt.Yield(simrt.OpAtomic)
	simrt.HBAtomic(uintptr(addr))
}

func AddInt32(addr *int32, delta int32) int32 {
	pre(unsafe.Pointer(addr))
	return realatomic.AddInt32(addr, delta)
}
func LoadInt32(addr *int32) int32       { pre(unsafe.Pointer(addr)); return realatomic.LoadInt32(addr) }
func StoreInt32(addr *int32, val int32) { pre(unsafe.Pointer(addr)); realatomic.StoreInt32(addr, val) }
func SwapInt32(addr *int32, new int32) int32 {
	pre(unsafe.Pointer(addr))
	return realatomic.SwapInt32(addr, new)
}
func CompareAndSwapInt32(addr *int32, old, new int32) bool {
	pre(unsafe.Pointer(addr))
	return realatomic.CompareAndSwapInt32(addr, old, new)
}

type Int32 struct{ v int32 }

func (x *Int32) Load() int32                        { return LoadInt32(&x.v) }
func (x *Int32) Store(val int32)                    { StoreInt32(&x.v, val) }
func (x *Int32) Swap(new int32) int32               { return SwapInt32(&x.v, new) }
func (x *Int32) CompareAndSwap(old, new int32) bool { return CompareAndSwapInt32(&x.v, old, new) }
func (x *Int32) Add(delta int32) int32              { return AddInt32(&x.v, delta) }

func AndInt32(addr *int32, mask int32) int32 {
	pre(unsafe.Pointer(addr))
	return realatomic.AndInt32(addr, mask)
}
func OrInt32(addr *int32, mask int32) int32 {
	pre(unsafe.Pointer(addr))
	return realatomic.OrInt32(addr, mask)
}
func (x *Int32) And(mask int32) int32 { return AndInt32(&x.v, mask) }
func (x *Int32) Or(mask int32) int32  { return OrInt32(&x.v, mask) }

func AddInt64(addr *int64, delta int64) int64 {
	pre(unsafe.Pointer(addr))
	return realatomic.AddInt64(addr, delta)
}
func LoadInt64(addr *int64) int64       { pre(unsafe.Pointer(addr)); return realatomic.LoadInt64(addr) }
func StoreInt64(addr *int64, val int64) { pre(unsafe.Pointer(addr)); realatomic.StoreInt64(addr, val) }
func SwapInt64(addr *int64, new int64) int64 {
	pre(unsafe.Pointer(addr))
	return realatomic.SwapInt64(addr, new)
}
func CompareAndSwapInt64(addr *int64, old, new int64) bool {
	pre(unsafe.Pointer(addr))
	return realatomic.CompareAndSwapInt64(addr, old, new)
}

type Int64 struct{ v int64 }

func (x *Int64) Load() int64                        { return LoadInt64(&x.v) }
func (x *Int64) Store(val int64)                    { StoreInt64(&x.v, val) }
func (x *Int64) Swap(new int64) int64               { return SwapInt64(&x.v, new) }
func (x *Int64) CompareAndSwap(old, new int64) bool { return CompareAndSwapInt64(&x.v, old, new) }
func (x *Int64) Add(delta int64) int64              { return AddInt64(&x.v, delta) }

func AndInt64(addr *int64, mask int64) int64 {
	pre(unsafe.Pointer(addr))
	return realatomic.AndInt64(addr, mask)
}
func OrInt64(addr *int64, mask int64) int64 {
	pre(unsafe.Pointer(addr))
	return realatomic.OrInt64(addr, mask)
}
func (x *Int64) And(mask int64) int64 { return AndInt64(&x.v, mask) }
func (x *Int64) Or(mask int64) int64  { return OrInt64(&x.v, mask) }

func AddUint32(addr *uint32, delta uint32) uint32 {
	pre(unsafe.Pointer(addr))
	return realatomic.AddUint32(addr, delta)
}
func LoadUint32(addr *uint32) uint32 { pre(unsafe.Pointer(addr)); return realatomic.LoadUint32(addr) }
func StoreUint32(addr *uint32, val uint32) {
	pre(unsafe.Pointer(addr))
	realatomic.StoreUint32(addr, val)
}
func SwapUint32(addr *uint32, new uint32) uint32 {
	pre(unsafe.Pointer(addr))
	return realatomic.SwapUint32(addr, new)
}
func CompareAndSwapUint32(addr *uint32, old, new uint32) bool {
	pre(unsafe.Pointer(addr))
	return realatomic.CompareAndSwapUint32(addr, old, new)
}

type Uint32 struct{ v uint32 }

func (x *Uint32) Load() uint32                        { return LoadUint32(&x.v) }
func (x *Uint32) Store(val uint32)                    { StoreUint32(&x.v, val) }
func (x *Uint32) Swap(new uint32) uint32              { return SwapUint32(&x.v, new) }
func (x *Uint32) CompareAndSwap(old, new uint32) bool { return CompareAndSwapUint32(&x.v, old, new) }
func (x *Uint32) Add(delta uint32) uint32             { return AddUint32(&x.v, delta) }

func AndUint32(addr *uint32, mask uint32) uint32 {
	pre(unsafe.Pointer(addr))
	return realatomic.AndUint32(addr, mask)
}
func OrUint32(addr *uint32, mask uint32) uint32 {
	pre(unsafe.Pointer(addr))
	return realatomic.OrUint32(addr, mask)
}
func (x *Uint32) And(mask uint32) uint32 { return AndUint32(&x.v, mask) }
func (x *Uint32) Or(mask uint32) uint32  { return OrUint32(&x.v, mask) }

func AddUint64(addr *uint64, delta uint64) uint64 {
	pre(unsafe.Pointer(addr))
	return realatomic.AddUint64(addr, delta)
}
func LoadUint64(addr *uint64) uint64 { pre(unsafe.Pointer(addr)); return realatomic.LoadUint64(addr) }
func StoreUint64(addr *uint64, val uint64) {
	pre(unsafe.Pointer(addr))
	realatomic.StoreUint64(addr, val)
}
func SwapUint64(addr *uint64, new uint64) uint64 {
	pre(unsafe.Pointer(addr))
	return realatomic.SwapUint64(addr, new)
}
func CompareAndSwapUint64(addr *uint64, old, new uint64) bool {
	pre(unsafe.Pointer(addr))
	return realatomic.CompareAndSwapUint64(addr, old, new)
}

type Uint64 struct{ v uint64 }

func (x *Uint64) Load() uint64                        { return LoadUint64(&x.v) }
func (x *Uint64) Store(val uint64)                    { StoreUint64(&x.v, val) }
func (x *Uint64) Swap(new uint64) uint64              { return SwapUint64(&x.v, new) }
func (x *Uint64) CompareAndSwap(old, new uint64) bool { return CompareAndSwapUint64(&x.v, old, new) }
func (x *Uint64) Add(delta uint64) uint64             { return AddUint64(&x.v, delta) }

func AndUint64(addr *uint64, mask uint64) uint64 {
	pre(unsafe.Pointer(addr))
	return realatomic.AndUint64(addr, mask)
}
func OrUint64(addr *uint64, mask uint64) uint64 {
	pre(unsafe.Pointer(addr))
	return realatomic.OrUint64(addr, mask)
}
func (x *Uint64) And(mask uint64) uint64 { return AndUint64(&x.v, mask) }
func (x *Uint64) Or(mask uint64) uint64  { return OrUint64(&x.v, mask) }

func AddUintptr(addr *uintptr, delta uintptr) uintptr {
	pre(unsafe.Pointer(addr))
	return realatomic.AddUintptr(addr, delta)
}
func LoadUintptr(addr *uintptr) uintptr {
	pre(unsafe.Pointer(addr))
	return realatomic.LoadUintptr(addr)
}
func StoreUintptr(addr *uintptr, val uintptr) {
	pre(unsafe.Pointer(addr))
	realatomic.StoreUintptr(addr, val)
}
func SwapUintptr(addr *uintptr, new uintptr) uintptr {
	pre(unsafe.Pointer(addr))
	return realatomic.SwapUintptr(addr, new)
}
func CompareAndSwapUintptr(addr *uintptr, old, new uintptr) bool {
	pre(unsafe.Pointer(addr))
	return realatomic.CompareAndSwapUintptr(addr, old, new)
}

type Uintptr struct{ v uintptr }

func (x *Uintptr) Load() uintptr                        { return LoadUintptr(&x.v) }
func (x *Uintptr) Store(val uintptr)                    { StoreUintptr(&x.v, val) }
func (x *Uintptr) Swap(new uintptr) uintptr             { return SwapUintptr(&x.v, new) }
func (x *Uintptr) CompareAndSwap(old, new uintptr) bool { return CompareAndSwapUintptr(&x.v, old, new) }
func (x *Uintptr) Add(delta uintptr) uintptr            { return AddUintptr(&x.v, delta) }

func LoadPointer(addr *unsafe.Pointer) unsafe.Pointer {
	pre(unsafe.Pointer(addr))
	return realatomic.LoadPointer(addr)
}
func StorePointer(addr *unsafe.Pointer, val unsafe.Pointer) {
	pre(unsafe.Pointer(addr))
	realatomic.StorePointer(addr, val)
}
func SwapPointer(addr *unsafe.Pointer, new unsafe.Pointer) unsafe.Pointer {
	pre(unsafe.Pointer(addr))
	return realatomic.SwapPointer(addr, new)
}
func CompareAndSwapPointer(addr *unsafe.Pointer, old, new unsafe.Pointer) bool {
	pre(unsafe.Pointer(addr))
	return realatomic.CompareAndSwapPointer(addr, old, new)
}

type Bool struct{ v uint32 }

func b32(b bool) uint32 {
	if b {
		return 1
	}
	return 0
}
func (x *Bool) Load() bool         { return LoadUint32(&x.v) != 0 }
func (x *Bool) Store(val bool)     { StoreUint32(&x.v, b32(val)) }
func (x *Bool) Swap(new bool) bool { return SwapUint32(&x.v, b32(new)) != 0 }
func (x *Bool) CompareAndSwap(old, new bool) bool {
	return CompareAndSwapUint32(&x.v, b32(old), b32(new))
}

type Pointer[T any] struct{ p realatomic.Pointer[T] }

func (x *Pointer[T]) Load() *T       { pre(unsafe.Pointer(x)); return x.p.Load() }
func (x *Pointer[T]) Store(val *T)   { pre(unsafe.Pointer(x)); x.p.Store(val) }
func (x *Pointer[T]) Swap(new *T) *T { pre(unsafe.Pointer(x)); return x.p.Swap(new) }
func (x *Pointer[T]) CompareAndSwap(old, new *T) bool {
	pre(unsafe.Pointer(x))
	return x.p.CompareAndSwap(old, new)
}

type Value struct{ v realatomic.Value }

func (x *Value) Load() any        { pre(unsafe.Pointer(x)); return x.v.Load() }
func (x *Value) Store(val any)    { pre(unsafe.Pointer(x)); x.v.Store(val) }
func (x *Value) Swap(new any) any { pre(unsafe.Pointer(x)); return x.v.Swap(new) }
func (x *Value) CompareAndSwap(old, new any) bool {
	pre(unsafe.Pointer(x))
	return x.v.CompareAndSwap(old, new)
}
