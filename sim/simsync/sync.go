// Package sync is the simulator's replacement for the standard sync package
// (the rewriter redirects the import). Every operation is a pre-emption point
// and blocking is simulated blocking: a task that cannot proceed is parked in
// the simulator, never on a real primitive.
package sync

import (
	realsync "sync"

	"verif/sim/simrt"
)

// Locker is sync.Locker.
type Locker = realsync.Locker

// Mutex is a simulated sync.Mutex.
type Mutex struct {
	held bool
	vc   []uint32
}

func (m *Mutex) Lock() {
	if simrt.Killed() {
		return
	}
	simrt.Yield(simrt.OpLock)
	if m.held {
		simrt.Probe("mutex-contended")
		simrt.Block("mutex", func() bool { return !m.held })
	}
	m.held = true
	simrt.HBAcquire(&m.vc)
}

func (m *Mutex) TryLock() bool {
	if simrt.Killed() {
		return true
	}
	simrt.Yield(simrt.OpLock)
	if m.held {
		return false
	}
	m.held = true
	simrt.HBAcquire(&m.vc)
	return true
}

func (m *Mutex) Unlock() {
	if !m.held {
		if simrt.Killed() {
			return
		}
		panic("sync: unlock of unlocked mutex")
	}
	simrt.HBRelease(&m.vc)
	m.held = false
	simrt.Yield(simrt.OpLock) // protection ends here: let others in before the caller's next plain access
}

// RWMutex is a simulated sync.RWMutex.
type RWMutex struct {
	writer  bool
	readers int
	// writers blocked in Lock: like the real RWMutex, a pending Lock keeps new
	// readers out (so a recursive RLock can deadlock behind a waiting writer)
	waitingWriters int
	vc             []uint32
}

func (m *RWMutex) Lock() {
	if simrt.Killed() {
		return
	}
	simrt.Yield(simrt.OpLock)
	if m.writer || m.readers > 0 {
		simrt.Probe("rwmutex-contended")
		m.waitingWriters++
		func() {
			defer func() { m.waitingWriters-- }() // also when the task is killed while waiting
			simrt.Block("rwmutex-w", func() bool { return !m.writer && m.readers == 0 })
		}()
	}
	m.writer = true
	simrt.HBAcquire(&m.vc)
}

func (m *RWMutex) TryLock() bool {
	if simrt.Killed() {
		return true
	}
	simrt.Yield(simrt.OpLock)
	if m.writer || m.readers > 0 {
		return false
	}
	m.writer = true
	simrt.HBAcquire(&m.vc)
	return true
}

func (m *RWMutex) Unlock() {
	if !m.writer {
		if simrt.Killed() {
			return
		}
		panic("sync: Unlock of unlocked RWMutex")
	}
	simrt.HBRelease(&m.vc)
	m.writer = false
	simrt.Yield(simrt.OpLock)
}

func (m *RWMutex) RLock() {
	if simrt.Killed() {
		return
	}
	simrt.Yield(simrt.OpLock)
	if m.writer || m.waitingWriters > 0 {
		simrt.Probe("rwmutex-contended")
		simrt.Block("rwmutex-r", func() bool { return !m.writer && m.waitingWriters == 0 })
	}
	m.readers++
	simrt.HBAcquire(&m.vc)
}

func (m *RWMutex) TryRLock() bool {
	if simrt.Killed() {
		return true
	}
	simrt.Yield(simrt.OpLock)
	if m.writer {
		return false
	}
	m.readers++
	simrt.HBAcquire(&m.vc)
	return true
}

func (m *RWMutex) RUnlock() {
	if m.readers <= 0 {
		if simrt.Killed() {
			return
		}
		panic("sync: RUnlock of unlocked RWMutex")
	}
	// readers also publish (over-approximation: reader->writer edges exist in Go too)
	simrt.HBRelease(&m.vc)
	m.readers--
	simrt.Yield(simrt.OpLock)
}

type rlocker RWMutex

func (r *rlocker) Lock()   { (*RWMutex)(r).RLock() }
func (r *rlocker) Unlock() { (*RWMutex)(r).RUnlock() }

func (m *RWMutex) RLocker() Locker { return (*rlocker)(m) }

// WaitGroup is a simulated sync.WaitGroup.
type WaitGroup struct {
	n  int
	vc []uint32
}

func (wg *WaitGroup) Add(delta int) {
	if simrt.Killed() {
		return
	}
	simrt.Yield(simrt.OpWait)
	if delta < 0 {
		simrt.HBRelease(&wg.vc)
	}
	wg.n += delta
	if wg.n < 0 {
		panic("sync: negative WaitGroup counter")
	}
}

func (wg *WaitGroup) Done() { wg.Add(-1) }

func (wg *WaitGroup) Wait() {
	if !simrt.InRun() {
		return
	}
	if simrt.Killed() {
		return
	}
	simrt.Yield(simrt.OpWait)
	simrt.Block("waitgroup", func() bool { return wg.n == 0 })
	simrt.HBAcquire(&wg.vc)
}

func (wg *WaitGroup) Go(f func()) {
	wg.Add(1)
	simrt.Go("wg.Go", func() {
		defer wg.Done()
		f()
	})
}

// Once is a simulated sync.Once.
type Once struct {
	done bool
	m    Mutex
}

func (o *Once) Do(f func()) {
	simrt.Yield(simrt.OpLock)
	if o.done {
		simrt.HBAcquire(&o.m.vc)
		return
	}
	o.m.Lock()
	defer o.m.Unlock()
	if !o.done {
		defer func() { o.done = true }()
		f()
	}
}

func OnceFunc(f func()) func() {
	var o Once
	return func() { o.Do(f) }
}

func OnceValue[T any](f func() T) func() T {
	var o Once
	var v T
	return func() T { o.Do(func() { v = f() }); return v }
}

// Cond is a simulated sync.Cond.
type Cond struct {
	L       Locker
	waiters []*condWaiter
	vc      []uint32
}

type condWaiter struct{ woken bool }

func NewCond(l Locker) *Cond { return &Cond{L: l} }

func (c *Cond) Wait() {
	w := &condWaiter{}
	c.waiters = append(c.waiters, w)
	c.L.Unlock()
	simrt.Block("cond", func() bool { return w.woken })
	simrt.HBAcquire(&c.vc)
	c.L.Lock()
}

func (c *Cond) Signal() {
	simrt.Yield(simrt.OpLock)
	simrt.HBRelease(&c.vc)
	if len(c.waiters) > 0 {
		c.waiters[0].woken = true
		c.waiters = c.waiters[1:]
	}
}

func (c *Cond) Broadcast() {
	simrt.Yield(simrt.OpLock)
	simrt.HBRelease(&c.vc)
	for _, w := range c.waiters {
		w.woken = true
	}
	c.waiters = nil
}

// Map is a simulated sync.Map (a plain map behind a simulated mutex; Range
// visits keys in insertion order, which is deterministic).
type Map struct {
	mu   Mutex
	m    map[any]any
	keys []any
}

func (m *Map) Load(key any) (any, bool) {
	m.mu.Lock()
	defer m.mu.Unlock()
	v, ok := m.m[key]
	return v, ok
}

func (m *Map) Store(key, value any) {
	m.mu.Lock()
	defer m.mu.Unlock()
	m.store(key, value)
}

func (m *Map) store(key, value any) {
	if m.m == nil {
		m.m = map[any]any{}
	}
	if _, ok := m.m[key]; !ok {
		m.keys = append(m.keys, key)
	}
	m.m[key] = value
}

func (m *Map) LoadOrStore(key, value any) (any, bool) {
	m.mu.Lock()
	defer m.mu.Unlock()
	if v, ok := m.m[key]; ok {
		return v, true
	}
	m.store(key, value)
	return value, false
}

func (m *Map) LoadAndDelete(key any) (any, bool) {
	m.mu.Lock()
	defer m.mu.Unlock()
	v, ok := m.m[key]
	if ok {
		m.del(key)
	}
	return v, ok
}

func (m *Map) del(key any) {
	delete(m.m, key)
	for i, k := range m.keys {
		if k == key {
			m.keys = append(m.keys[:i], m.keys[i+1:]...)
			break
		}
	}
}

func (m *Map) Delete(key any) { m.LoadAndDelete(key) }

func (m *Map) Swap(key, value any) (any, bool) {
	m.mu.Lock()
	defer m.mu.Unlock()
	v, ok := m.m[key]
	m.store(key, value)
	return v, ok
}

func (m *Map) CompareAndSwap(key, old, new any) bool {
	m.mu.Lock()
	defer m.mu.Unlock()
	if v, ok := m.m[key]; ok && v == old {
		m.m[key] = new
		return true
	}
	return false
}

func (m *Map) CompareAndDelete(key, old any) bool {
	m.mu.Lock()
	defer m.mu.Unlock()
	if v, ok := m.m[key]; ok && v == old {
		m.del(key)
		return true
	}
	return false
}

func (m *Map) Range(f func(key, value any) bool) {
	m.mu.Lock()
	keys := append([]any(nil), m.keys...)
	m.mu.Unlock()
	for _, k := range keys {
		v, ok := m.Load(k)
		if !ok {
			continue
		}
		if !f(k, v) {
			return
		}
	}
}

func (m *Map) Clear() {
	m.mu.Lock()
	defer m.mu.Unlock()
	m.m = nil
	m.keys = nil
}

// Pool is a trivial sync.Pool.
type Pool struct {
	New   func() any
	items []any
	run   uint64
}

// A pool must not carry objects from one simulated run into the next (a
// package-level pool in the code under test would make runs depend on their
// predecessors); sync.Pool may drop its contents at any time, so emptying it
// at run boundaries is legal behaviour.
func (p *Pool) fresh() {
	if r := simrt.RunSeq(); p.run != r {
		p.items = nil
		p.run = r
	}
}

func (p *Pool) Get() any {
	p.fresh()
	simrt.Yield(simrt.OpLock)
	if n := len(p.items); n > 0 {
		x := p.items[n-1]
		p.items = p.items[:n-1]
		return x
	}
	if p.New != nil {
		return p.New()
	}
	return nil
}

func (p *Pool) Put(x any) {
	p.fresh()
	simrt.Yield(simrt.OpLock)
	p.items = append(p.items, x)
}
