// Package drpcserver is a message-level stand-in for storj.io/drpc/drpcserver
// v0.0.33: Serve accepts connections until its context ends (then closes the
// listener and the connections and waits for their handlers); each connection
// runs its streams one after the other through the real drpc.Handler (the
// real drpcmux), on a goroutine without recover, as the real server does.
package drpcserver

import (
	"context"
	"io"

	"storj.io/drpc"

	"verif/sim/simdrpc/drpcmanager"
	"verif/sim/simdrpc/wire"
	simnet "verif/sim/simnet"
	"verif/sim/simrt"
	simsync "verif/sim/simsync"
)

type Options struct {
	Manager drpcmanager.Options
	Log     func(error)
}

type Server struct {
	handler drpc.Handler
	opts    Options
}

// decodeHook lets a harness edit a decoded inbound message before the handler
// sees it: the way to present message *values* the wire decoder never
// produces (e.g. nil table entries) to code that must survive any value.
type decodeHook struct{ f func(drpc.Message) }

func hook() *decodeHook {
	return simrt.Local("simdrpc-decode-hook", func() any { return &decodeHook{} }).(*decodeHook)
}

// SetDecodeHook installs f for the current run (nil removes it).
func SetDecodeHook(f func(drpc.Message)) { hook().f = f }

func New(handler drpc.Handler) *Server { return NewWithOptions(handler, Options{}) }

func NewWithOptions(handler drpc.Handler, opts Options) *Server {
	return &Server{handler: handler, opts: opts}
}

func (s *Server) Serve(ctx context.Context, lis simnet.Listener) error {
	var wg simsync.WaitGroup
	var conns []*simnet.SimConn
	stopped := false
	simrt.Go("drpcserver-ctx", func() {
		simrt.Recv(ctx.Done())
		stopped = true
		lis.Close()
		for _, c := range conns {
			c.Close()
		}
	})
	for {
		conn, err := lis.Accept()
		if err != nil {
			wg.Wait()
			if ctx.Err() != nil {
				return nil
			}
			return err
		}
		sc := conn.(*simnet.SimConn)
		if stopped {
			sc.Close()
			continue
		}
		conns = append(conns, sc)
		wg.Add(1)
		simrt.Go("drpcserver-conn", func() {
			defer wg.Done()
			s.serveOne(ctx, sc)
		})
	}
}

func (s *Server) ServeOne(ctx context.Context, tr drpc.Transport) error {
	return s.serveOne(ctx, tr.(*simnet.SimConn))
}

func (s *Server) serveOne(ctx context.Context, sc *simnet.SimConn) error {
	defer sc.Close()
	for {
		f, err := sc.RecvFrame()
		if err != nil {
			return err
		}
		if len(f) == 0 || f[0] != wire.KInvoke {
			continue // a packet for no open stream is ignored
		}
		rpc := string(f[1:])
		sctx, cancel := context.WithCancel(ctx)
		max := s.opts.Manager.Reader.MaximumBufferSize
		if max <= 0 {
			max = 4 << 20 // drpc's default
		}
		st := &stream{sc: sc, ctx: sctx, parent: ctx, max: max}
		herr := s.handler.HandleRPC(st, rpc)
		cancel()
		if herr != nil {
			if s.opts.Log != nil {
				s.opts.Log(herr)
			}
			if err := sc.SendFrame(wire.Frame(wire.KError, []byte(herr.Error()))); err != nil {
				return err
			}
		}
		if sc.Gone() {
			return io.EOF
		}
	}
}

type stream struct {
	sc     *simnet.SimConn
	ctx    context.Context
	parent context.Context
	over   bool
	max    int // largest message the reader accepts
}

func (s *stream) Context() context.Context { return s.ctx }

func (s *stream) MsgSend(msg drpc.Message, enc drpc.Encoding) error {
	data, err := enc.Marshal(msg)
	if err != nil {
		return err
	}
	if err := s.sc.SendFrame(wire.Frame(wire.KMessage, data)); err != nil {
		return io.EOF
	}
	return nil
}

func (s *stream) MsgRecv(msg drpc.Message, enc drpc.Encoding) error {
	if s.over {
		return io.EOF
	}
	for {
		f, err := s.sc.RecvFrame()
		if err != nil {
			s.over = true
			if s.parent.Err() != nil {
				return context.Canceled
			}
			if err == io.EOF {
				return io.EOF
			}
			return drpc.ClosedError.Wrap(err)
		}
		if len(f) == 0 {
			continue
		}
		switch f[0] {
		case wire.KMessage:
			if s.max > 0 && len(f)-1 > s.max {
				// the real reader fails with "data overflow" and the manager drops the connection
				s.over = true
				s.sc.Close()
				return drpc.ProtocolError.New("data overflow")
			}
			if err := enc.Unmarshal(f[1:], msg); err != nil {
				return err
			}
			if h := hook(); h.f != nil {
				h.f(msg)
			}
			return nil
		case wire.KCloseSend, wire.KClose:
			s.over = true
			return io.EOF
		case wire.KInvoke:
			s.over = true
			return drpc.ProtocolError.New("invoke while a stream is open")
		}
	}
}

func (s *stream) CloseSend() error { return nil }
func (s *stream) Close() error     { s.over = true; return nil }
