// Package wire is the frame format shared by the drpcconn and drpcserver
// stubs: one kind byte followed by the payload.
package wire

const (
	KInvoke    = 1 // payload: rpc name
	KMessage   = 2 // payload: encoded message
	KCloseSend = 3
	KError     = 4 // payload: error text (handler failed; the stream is over)
	KClose     = 5 // stream closed by the sender
)

func Frame(kind byte, payload []byte) []byte {
	b := make([]byte, 1+len(payload))
	b[0] = kind
	copy(b[1:], payload)
	return b
}
