// Package drpcmanager stands in for storj.io/drpc/drpcmanager (options only).
package drpcmanager

import (
	"time"

	"verif/sim/simdrpc/drpcwire"
)

type Options struct {
	WriterBufferSize  int
	Reader            drpcwire.ReaderOptions
	InactivityTimeout time.Duration
	SoftCancel        bool
}
