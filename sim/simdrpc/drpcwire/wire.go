// Package drpcwire stands in for storj.io/drpc/drpcwire (options only).
package drpcwire

type ReaderOptions struct {
	MaximumBufferSize int
}
