// Package drpcconn is a message-level stand-in for storj.io/drpc/drpcconn
// v0.0.33 over the simulated network: the real Encoding marshals every
// message, frames are FIFO per connection, a handler error on the server ends
// the stream (the client's next MsgSend returns io.EOF), Closed() fires when
// the connection is lost or closed.
package drpcconn

import (
	"context"
	"errors"
	"io"

	"storj.io/drpc"

	"verif/sim/simdrpc/drpcmanager"
	"verif/sim/simdrpc/wire"
	simnet "verif/sim/simnet"
	"verif/sim/simrt"
)

type Options struct {
	Manager drpcmanager.Options
}

type Conn struct {
	tr     *simnet.SimConn
	closed chan struct{}
	isDone bool
	cur    *stream
}

func New(tr drpc.Transport) *Conn { return NewWithOptions(tr, Options{}) }

func NewWithOptions(tr drpc.Transport, _ Options) *Conn {
	sc, ok := tr.(*simnet.SimConn)
	if !ok {
		// a wrapper around a simulated connection (the simulated tls.Conn)
		u, ok2 := tr.(interface{ Sim() *simnet.SimConn })
		if !ok2 {
			panic("simdrpc: transport is not a simulated connection")
		}
		sc = u.Sim()
	}
	c := &Conn{tr: sc, closed: make(chan struct{})}
	simrt.Go("drpcconn-reader", c.reader)
	return c
}

func (c *Conn) finish() {
	if !c.isDone {
		c.isDone = true
		close(c.closed)
		simrt.ChanEvent()
		if c.cur != nil {
			c.cur.term(io.EOF)
		}
	}
}

// reader mirrors the manager's reader goroutine: it notices remote errors,
// remote closes and the loss of the transport.
func (c *Conn) reader() {
	for {
		f, err := c.tr.RecvFrame()
		if err != nil {
			c.tr.Close()
			c.finish()
			return
		}
		if len(f) == 0 {
			continue
		}
		switch f[0] {
		case wire.KError:
			if c.cur != nil {
				c.cur.term(errors.New(string(f[1:])))
			}
		case wire.KMessage:
			if c.cur != nil {
				c.cur.inbox = append(c.cur.inbox, f[1:])
			}
		case wire.KCloseSend, wire.KClose:
			if c.cur != nil {
				c.cur.remoteClosed = true
			}
		}
	}
}

func (c *Conn) Close() error {
	simrt.Yield(simrt.OpNet)
	c.tr.Close()
	c.finish()
	return nil
}

func (c *Conn) Closed() <-chan struct{} { return c.closed }

func (c *Conn) Transport() drpc.Transport { return c.tr }

func (c *Conn) Invoke(ctx context.Context, rpc string, enc drpc.Encoding, in, out drpc.Message) error {
	return errors.New("simdrpc: unary Invoke is not simulated")
}

func (c *Conn) NewStream(ctx context.Context, rpc string, enc drpc.Encoding) (drpc.Stream, error) {
	simrt.Yield(simrt.OpNet)
	if c.isDone {
		return nil, drpc.ClosedError.New("connection closed")
	}
	if err := c.tr.SendFrame(wire.Frame(wire.KInvoke, []byte(rpc))); err != nil {
		c.tr.Close()
		c.finish()
		return nil, err
	}
	sctx, cancel := context.WithCancel(ctx)
	s := &stream{c: c, ctx: sctx, cancel: cancel}
	c.cur = s
	return s, nil
}

type stream struct {
	c            *Conn
	ctx          context.Context
	cancel       context.CancelFunc
	termErr      error
	done         bool
	inbox        [][]byte
	remoteClosed bool
	sendClosed   bool
}

func (s *stream) term(err error) {
	if !s.done {
		s.done = true
		s.termErr = err
		s.cancel()
	}
}

func (s *stream) Context() context.Context { return s.ctx }

func (s *stream) MsgSend(msg drpc.Message, enc drpc.Encoding) error {
	simrt.Yield(simrt.OpNet)
	if s.done || s.sendClosed {
		return io.EOF
	}
	data, err := enc.Marshal(msg)
	if err != nil {
		return err
	}
	if err := s.c.tr.SendFrame(wire.Frame(wire.KMessage, data)); err != nil {
		// the transport is gone: the manager would tear the connection down
		s.c.tr.Close()
		s.c.finish()
		return io.EOF
	}
	return nil
}

func (s *stream) MsgRecv(msg drpc.Message, enc drpc.Encoding) error {
	simrt.Yield(simrt.OpNet)
	simrt.Block("client-stream-recv", func() bool { return len(s.inbox) > 0 || s.done || s.remoteClosed })
	if len(s.inbox) > 0 {
		b := s.inbox[0]
		s.inbox = s.inbox[1:]
		return enc.Unmarshal(b, msg)
	}
	if s.done && s.termErr != nil {
		return s.termErr
	}
	return io.EOF
}

func (s *stream) CloseSend() error {
	simrt.Yield(simrt.OpNet)
	if s.done || s.sendClosed {
		return nil
	}
	s.sendClosed = true
	return s.c.tr.SendFrame(wire.Frame(wire.KCloseSend, nil))
}

func (s *stream) Close() error {
	simrt.Yield(simrt.OpNet)
	if s.done {
		return nil
	}
	_ = s.c.tr.SendFrame(wire.Frame(wire.KClose, nil))
	s.term(drpc.ClosedError.New("stream closed"))
	return nil
}
