// Package rand is the simulator's replacement for math/rand: top-level
// functions draw from the run's seeded environment PRNG.
package rand

import (
	realrand "math/rand"

	"verif/sim/simrt"
)

type (
	Rand     = realrand.Rand
	Source   = realrand.Source
	Source64 = realrand.Source64
	Zipf     = realrand.Zipf
)

func New(src Source) *Rand                             { return realrand.New(src) }
func NewSource(seed int64) Source                      { return realrand.NewSource(seed) }
func NewZipf(r *Rand, s, v float64, imax uint64) *Zipf { return realrand.NewZipf(r, s, v, imax) }
func Seed(int64)                                       {}

func small(n int64) (int64, bool) {
	if k := int64(simrt.SmallIDs); k > 0 && n > k {
		return k, true
	}
	return n, false
}

func Int63() int64   { return simrt.EnvRand().Int64() }
func Int31() int32   { return simrt.EnvRand().Int32() }
func Int() int       { return simrt.EnvRand().Int() }
func Uint32() uint32 { return simrt.EnvRand().Uint32() }
func Uint64() uint64 { return simrt.EnvRand().Uint64() }

func Int63n(n int64) int64 {
	if n <= 0 {
		panic("invalid argument to Int63n")
	}
	if k, ok := small(n); ok {
		simrt.Probe("buggify-small-ids")
		return simrt.EnvRand().Int64N(k)
	}
	return simrt.EnvRand().Int64N(n)
}

func Int31n(n int32) int32 {
	if n <= 0 {
		panic("invalid argument to Int31n")
	}
	return int32(Int63n(int64(n)))
}

func Intn(n int) int {
	if n <= 0 {
		panic("invalid argument to Intn")
	}
	return int(Int63n(int64(n)))
}

func Float64() float64                   { return simrt.EnvRand().Float64() }
func Float32() float32                   { return simrt.EnvRand().Float32() }
func NormFloat64() float64               { return simrt.EnvRand().NormFloat64() }
func ExpFloat64() float64                { return simrt.EnvRand().ExpFloat64() }
func Perm(n int) []int                   { return simrt.EnvRand().Perm(n) }
func Shuffle(n int, swap func(i, j int)) { simrt.EnvRand().Shuffle(n, swap) }
func Read(p []byte) (int, error) {
	for i := range p {
		p[i] = byte(simrt.EnvRand().Uint32())
	}
	return len(p), nil
}
