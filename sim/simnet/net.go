// Package net is the simulator's replacement for the standard net package in
// rewritten code: Dial and Listen create in-memory, message-framed connections
// with simulated latency, refusal, partitions, breaks and corruption. A
// connection never reorders, duplicates or drops frames while it is up (TCP
// does not either).
package net

import (
	"errors"
	"fmt"
	"io"
	realnet "net"
	"time"

	"verif/sim/simrt"
)

type (
	Conn      = realnet.Conn
	Listener  = realnet.Listener
	Addr      = realnet.Addr
	IP        = realnet.IP
	Interface = realnet.Interface
	OpError   = realnet.OpError
	Error     = realnet.Error
	TCPAddr   = realnet.TCPAddr
)

var ErrClosed = realnet.ErrClosed

func SplitHostPort(hostport string) (string, string, error) { return realnet.SplitHostPort(hostport) }
func JoinHostPort(host, port string) string                 { return realnet.JoinHostPort(host, port) }
func ParseIP(s string) IP                                   { return realnet.ParseIP(s) }

// Network is the run-local state of the simulated network.
type Network struct {
	listeners  map[string]*SimListener
	conns      []*SimConn // client endpoints of live connections
	partitions map[[2]int]bool
	// fault knobs (set by the harness per run)
	DialRefuseP float64 // probability that a dial to a listening address is refused
	SetDeadlineErrP float64 // probability that SetDeadline fails (buggify)
	MaxLatency  int     // index into latencies
	Corrupt     func(frame []byte) []byte
	nextConn    int
	// Aliases maps another spelling of an address (a host name, another IP of
	// the same host) to the address somebody listens on
	Aliases map[string]string
}

var latencies = []time.Duration{0, 50 * time.Microsecond, 500 * time.Microsecond, 2 * time.Millisecond, 20 * time.Millisecond}

// Net returns the network of the current run.
func Net() *Network {
	return simrt.Local("simnet", func() any {
		return &Network{listeners: map[string]*SimListener{}, partitions: map[[2]int]bool{}, MaxLatency: 3}
	}).(*Network)
}

func (n *Network) latency() time.Duration {
	if n.MaxLatency <= 0 {
		return 0
	}
	return latencies[simrt.IntN(n.MaxLatency+1)]
}

func pair(a, b int) [2]int {
	if a > b {
		a, b = b, a
	}
	return [2]int{a, b}
}

// Partition cuts (or heals) the link between two nodes: dials are refused and
// existing connections between them break.
func (n *Network) Partition(a, b int, cut bool) {
	if cut {
		n.partitions[pair(a, b)] = true
		simrt.Fault("partition")
		for _, c := range append([]*SimConn(nil), n.conns...) {
			if pair(c.node, c.peer.node) == pair(a, b) {
				c.breakBoth("partition")
			}
		}
	} else {
		delete(n.partitions, pair(a, b))
		simrt.Fault("heal")
	}
}

// BreakNode breaks every connection and listener of a node (crash).
func (n *Network) BreakNode(node int) {
	for addr, l := range n.listeners {
		if l.node == node {
			l.closed = true
			delete(n.listeners, addr)
		}
	}
	for _, c := range append([]*SimConn(nil), n.conns...) {
		if c.node == node || c.peer.node == node {
			c.breakBoth("node down")
		}
	}
}

// BreakConns breaks the live connections between two nodes (either
// direction); it returns how many were broken.
func (n *Network) BreakConns(a, b int) int {
	k := 0
	for _, c := range append([]*SimConn(nil), n.conns...) {
		if pair(c.node, c.peer.node) == pair(a, b) && !c.broken {
			c.breakBoth("injected connection loss")
			k++
		}
	}
	if k > 0 {
		simrt.Fault("connection-break")
	}
	return k
}

// Listening reports whether something listens on addr.
func (n *Network) Listening(addr string) bool {
	l := n.listeners[addr]
	return l != nil && !l.closed
}

// ---------------------------------------------------------------- listener

type simAddr string

func (a simAddr) Network() string { return "tcp" }
func (a simAddr) String() string  { return string(a) }

type SimListener struct {
	addr   string
	node   int
	queue  []*SimConn
	closed bool
}

func Listen(network, addr string) (Listener, error) {
	simrt.Yield(simrt.OpNet)
	n := Net()
	if l := n.listeners[addr]; l != nil && !l.closed {
		return nil, &OpError{Op: "listen", Net: network, Err: errors.New("bind: address already in use")}
	}
	l := &SimListener{addr: addr, node: simrt.Cur().Node}
	n.listeners[addr] = l
	simrt.TraceOp("listen %s node=%d", addr, l.node)
	return l, nil
}

func (l *SimListener) Accept() (Conn, error) {
	if simrt.Killed() {
		simrt.Block("accept", func() bool { return false })
	}
	simrt.Yield(simrt.OpNet)
	simrt.Block("accept", func() bool { return l.closed || len(l.queue) > 0 })
	if len(l.queue) == 0 {
		return nil, &OpError{Op: "accept", Net: "tcp", Err: ErrClosed}
	}
	c := l.queue[0]
	l.queue = l.queue[1:]
	return c, nil
}

func (l *SimListener) Close() error {
	simrt.Yield(simrt.OpNet)
	if !l.closed {
		l.closed = true
		n := Net()
		if n.listeners[l.addr] == l {
			delete(n.listeners, l.addr)
		}
		// connections not yet accepted are reset
		for _, c := range l.queue {
			c.breakBoth("listener closed")
		}
		l.queue = nil
	}
	return nil
}

func (l *SimListener) Addr() Addr { return simAddr(l.addr) }

// ---------------------------------------------------------------- connection

type frame struct {
	data    []byte
	visible bool
}

// SimConn is one endpoint of a simulated connection.
type SimConn struct {
	id       int
	node     int
	local    string
	remote   string
	peer     *SimConn
	in       []*frame // frames sent by the peer, in order
	lastAt   int64    // delivery time of the last frame queued towards the peer
	closed   bool     // this endpoint was closed locally
	peerGone bool     // the peer closed or the connection broke
	broken   bool
	why      string
	deadline simrt.TimerHandle
	client   bool
	rbuf     []byte
}

func dial(network, addr string) (*SimConn, error) {
	simrt.Yield(simrt.OpNet)
	n := Net()
	src := simrt.Cur().Node
	if lat := n.latency(); lat > 0 {
		simrt.Sleep(lat)
	}
	refuse := func(why string) (*SimConn, error) {
		simrt.TraceOp("dial %s from node %d refused: %s", addr, src, why)
		return nil, &OpError{Op: "dial", Net: network, Addr: simAddr(addr), Err: errors.New("connect: connection refused (" + why + ")")}
	}
	l := n.listeners[addr]
	if real, ok := n.Aliases[addr]; ok && l == nil {
		l = n.listeners[real]
	}
	if l == nil || l.closed {
		simrt.Fault("dial-no-listener")
		return refuse("nobody listening")
	}
	if simrt.NodeDown(l.node) {
		simrt.Fault("dial-peer-down")
		return refuse("peer down")
	}
	if n.partitions[pair(src, l.node)] {
		simrt.Fault("dial-partitioned")
		return refuse("partitioned")
	}
	if n.DialRefuseP > 0 && simrt.Chance(n.DialRefuseP) {
		simrt.Fault("dial-refused-injected")
		return refuse("injected")
	}
	n.nextConn++
	// like a real socket, the connection knows the resolved address of its peer,
	// not the name that was dialed
	c := &SimConn{id: n.nextConn, node: src, local: fmt.Sprintf("node%d:c%d", src, n.nextConn), remote: l.addr, client: true}
	s := &SimConn{id: n.nextConn, node: l.node, local: l.addr, remote: c.local}
	c.peer, s.peer = s, c
	n.conns = append(n.conns, c)
	l.queue = append(l.queue, s)
	simrt.TraceOp("dial %s from node %d ok (conn %d)", addr, src, c.id)
	return c, nil
}

func Dial(network, addr string) (Conn, error) {
	c, err := dial(network, addr)
	if err != nil {
		return nil, err
	}
	return c, nil
}

func DialTimeout(network, addr string, _ time.Duration) (Conn, error) { return Dial(network, addr) }

// DialSim is Dial returning the concrete type (hostile peers in the harness).
func DialSim(addr string) (*SimConn, error) { return dial("tcp", addr) }

func (c *SimConn) breakBoth(why string) {
	for _, e := range []*SimConn{c, c.peer} {
		if !e.broken {
			e.broken = true
			e.peerGone = true
			e.why = why
		}
	}
	Net().forget(c)
}

func (n *Network) forget(c *SimConn) {
	for i, x := range n.conns {
		if x == c || x == c.peer {
			n.conns = append(n.conns[:i], n.conns[i+1:]...)
			return
		}
	}
}

// SendFrame queues one frame towards the peer.
func (c *SimConn) SendFrame(b []byte) error {
	if simrt.Killed() {
		return io.ErrClosedPipe
	}
	simrt.Yield(simrt.OpNet)
	if c.closed || c.broken {
		return &OpError{Op: "write", Net: "tcp", Err: errors.New("use of closed or broken connection")}
	}
	if c.peer.closed {
		return &OpError{Op: "write", Net: "tcp", Err: errors.New("connection reset by peer")}
	}
	n := Net()
	data := append([]byte(nil), b...)
	if n.Corrupt != nil {
		data = n.Corrupt(data)
	}
	f := &frame{data: data}
	p := c.peer
	p.in = append(p.in, f)
	lat := n.latency()
	at := simrt.Now() + int64(lat)
	if at < c.lastAt {
		at = c.lastAt // FIFO per direction
	}
	c.lastAt = at
	if d := time.Duration(at - simrt.Now()); d > 0 {
		simrt.AfterFunc(d, func() { f.visible = true })
	} else {
		f.visible = true
	}
	return nil
}

// RecvFrame blocks until a frame, the end of the stream or a break.
func (c *SimConn) RecvFrame() ([]byte, error) {
	if simrt.Killed() {
		simrt.Block("recv", func() bool { return false })
	}
	simrt.Yield(simrt.OpNet)
	simrt.Block("conn-recv", func() bool {
		return c.closed || c.broken || (len(c.in) > 0 && c.in[0].visible) || (len(c.in) == 0 && c.peer.closed)
	})
	if c.closed {
		return nil, &OpError{Op: "read", Net: "tcp", Err: ErrClosed}
	}
	if len(c.in) > 0 && c.in[0].visible && !c.broken {
		f := c.in[0]
		c.in = c.in[1:]
		return f.data, nil
	}
	if c.broken {
		return nil, &OpError{Op: "read", Net: "tcp", Err: errors.New("connection lost: " + c.why)}
	}
	return nil, io.EOF
}

func (c *SimConn) Read(p []byte) (int, error) {
	if len(c.rbuf) == 0 {
		f, err := c.RecvFrame()
		if err != nil {
			return 0, err
		}
		c.rbuf = f
	}
	k := copy(p, c.rbuf)
	c.rbuf = c.rbuf[k:]
	return k, nil
}

func (c *SimConn) Write(p []byte) (int, error) {
	if err := c.SendFrame(p); err != nil {
		return 0, err
	}
	return len(p), nil
}

func (c *SimConn) Close() error {
	simrt.Yield(simrt.OpNet)
	if !c.closed {
		c.closed = true
		c.deadline.Stop()
		if c.peer.closed || c.broken {
			Net().forget(c)
		}
	}
	return nil
}

// Gone reports whether the connection can no longer deliver anything: closed
// locally, broken, or closed by the peer with nothing left to read.
func (c *SimConn) Gone() bool {
	return c.closed || c.broken || (c.peer.closed && len(c.in) == 0)
}

func (c *SimConn) LocalAddr() Addr  { return simAddr(c.local) }
func (c *SimConn) RemoteAddr() Addr { return simAddr(c.remote) }
func (c *SimConn) Node() int        { return c.node }

// SetDeadline arms the idle deadline on the simulated clock: when it passes
// without being refreshed the connection times out (breaks).
func (c *SimConn) SetDeadline(t time.Time) error {
	simrt.Yield(simrt.OpNet)
	// a real SetDeadline fails only on a locally closed descriptor; the rare
	// "usually successful call returns an error" case is an injected fault
	if c.closed {
		return &OpError{Op: "set", Net: "tcp", Err: errors.New("use of closed network connection")}
	}
	if p := Net().SetDeadlineErrP; p > 0 && simrt.Chance(p) {
		simrt.Fault("setdeadline-error-injected")
		return &OpError{Op: "set", Net: "tcp", Err: errors.New("injected SetDeadline failure")}
	}
	if c.broken {
		return nil
	}
	c.deadline.Stop()
	if t.IsZero() {
		return nil
	}
	d := t.Sub(simEpoch.Add(time.Duration(simrt.Now())))
	c.deadline = simrt.AfterFunc(d, func() {
		if !c.closed && !c.broken {
			simrt.Fault("idle-deadline-expired")
			c.breakBoth("i/o timeout")
		}
	})
	return nil
}
func (c *SimConn) SetReadDeadline(t time.Time) error  { return c.SetDeadline(t) }
func (c *SimConn) SetWriteDeadline(t time.Time) error { return c.SetDeadline(t) }

// must equal simtime.Epoch (not imported to avoid a cycle in package names)
var simEpoch = time.Date(2024, 1, 1, 0, 0, 0, 0, time.UTC)
