// Package time is the simulator's replacement for the standard time package:
// the clock, sleeps, timers and tickers run on simulated time; everything
// else (Duration, Time arithmetic, formatting) is the real thing.
package time

import (
	realtime "time"

	"verif/sim/simrt"
)

type (
	Duration   = realtime.Duration
	Time       = realtime.Time
	Month      = realtime.Month
	Weekday    = realtime.Weekday
	Location   = realtime.Location
	ParseError = realtime.ParseError
)

const (
	Nanosecond  = realtime.Nanosecond
	Microsecond = realtime.Microsecond
	Millisecond = realtime.Millisecond
	Second      = realtime.Second
	Minute      = realtime.Minute
	Hour        = realtime.Hour

	Layout      = realtime.Layout
	ANSIC       = realtime.ANSIC
	UnixDate    = realtime.UnixDate
	RFC822      = realtime.RFC822
	RFC1123     = realtime.RFC1123
	RFC3339     = realtime.RFC3339
	RFC3339Nano = realtime.RFC3339Nano
	Kitchen     = realtime.Kitchen
	Stamp       = realtime.Stamp
	StampMilli  = realtime.StampMilli
	StampMicro  = realtime.StampMicro
	StampNano   = realtime.StampNano
	DateTime    = realtime.DateTime
	DateOnly    = realtime.DateOnly
	TimeOnly    = realtime.TimeOnly

	January  = realtime.January
	February = realtime.February
	March    = realtime.March
	Sunday   = realtime.Sunday
	Monday   = realtime.Monday
)

var (
	UTC   = realtime.UTC
	Local = realtime.Local
)

func Unix(sec, nsec int64) Time { return realtime.Unix(sec, nsec) }
func UnixMilli(ms int64) Time   { return realtime.UnixMilli(ms) }
func UnixMicro(us int64) Time   { return realtime.UnixMicro(us) }
func Date(y int, m Month, d, h, mi, s, ns int, loc *Location) Time {
	return realtime.Date(y, m, d, h, mi, s, ns, loc)
}
func Parse(layout, value string) (Time, error)    { return realtime.Parse(layout, value) }
func ParseDuration(s string) (Duration, error)    { return realtime.ParseDuration(s) }
func FixedZone(name string, off int) *Location    { return realtime.FixedZone(name, off) }
func LoadLocation(name string) (*Location, error) { return realtime.LoadLocation(name) }

// Epoch is the wall-clock reading at simulated time zero.
var Epoch = realtime.Date(2024, 1, 1, 0, 0, 0, 0, realtime.UTC)

func Now() Time {
	if !simrt.InRun() {
		return Epoch
	}
	return Epoch.Add(Duration(simrt.Now()))
}

func Since(t Time) Duration { return Now().Sub(t) }
func Until(t Time) Duration { return t.Sub(Now()) }

func Sleep(d Duration) { simrt.Sleep(d) }

// Timer mirrors time.Timer.
type Timer struct {
	C  <-chan Time
	c  chan Time
	h  simrt.TimerHandle
	fn func()
}

func (t *Timer) arm(d Duration) {
	if t.fn != nil {
		f := t.fn
		node := simrt.Cur().Node
		t.h = simrt.AfterFunc(d, func() {
			if !simrt.NodeDown(node) {
				simrt.GoNode(node, "time.AfterFunc", f)
			}
		})
		return
	}
	c := t.c
	t.h = simrt.AfterFunc(d, func() {
		select {
		case c <- Now():
		default:
		}
	})
}

func NewTimer(d Duration) *Timer {
	c := make(chan Time, 1)
	t := &Timer{C: c, c: c}
	t.arm(d)
	return t
}

func AfterFunc(d Duration, f func()) *Timer {
	t := &Timer{fn: f}
	t.arm(d)
	return t
}

func After(d Duration) <-chan Time { return NewTimer(d).C }

func (t *Timer) Stop() bool {
	simrt.Yield(simrt.OpTime)
	return t.h.Stop()
}

func (t *Timer) Reset(d Duration) bool {
	simrt.Yield(simrt.OpTime)
	was := t.h.Stop()
	t.arm(d)
	return was
}

// Ticker mirrors time.Ticker.
type Ticker struct {
	C       <-chan Time
	c       chan Time
	h       simrt.TimerHandle
	d       Duration
	stopped bool
	node    int
}

func NewTicker(d Duration) *Ticker {
	if d <= 0 {
		panic("non-positive interval for NewTicker")
	}
	c := make(chan Time, 1)
	t := &Ticker{C: c, c: c, d: d, node: simrt.Cur().Node}
	t.arm()
	return t
}

func (t *Ticker) arm() {
	node := t.node
	t.h = simrt.AfterFunc(t.d, func() {
		if t.stopped || simrt.NodeDown(node) {
			return
		}
		select {
		case t.c <- Now():
		default:
		}
		t.arm()
	})
}

func (t *Ticker) Stop() {
	simrt.Yield(simrt.OpTime)
	t.stopped = true
	t.h.Stop()
}

func (t *Ticker) Reset(d Duration) {
	simrt.Yield(simrt.OpTime)
	t.h.Stop()
	t.d = d
	t.stopped = false
	t.arm()
}

func Tick(d Duration) <-chan Time {
	if d <= 0 {
		return nil
	}
	return NewTicker(d).C
}
