// Package tls replaces crypto/tls in rewritten code: the configuration types
// are the real ones, Dial and Listen use the simulated network (the TLS
// handshake itself is outside the simulation).
package tls

import (
	realtls "crypto/tls"

	simnet "verif/sim/simnet"
)

type (
	Config      = realtls.Config
	Certificate = realtls.Certificate
	Conn        = realtls.Conn
)

const (
	VersionTLS12 = realtls.VersionTLS12
	VersionTLS13 = realtls.VersionTLS13
)

func X509KeyPair(certPEMBlock, keyPEMBlock []byte) (Certificate, error) {
	return realtls.X509KeyPair(certPEMBlock, keyPEMBlock)
}
func LoadX509KeyPair(certFile, keyFile string) (Certificate, error) {
	return realtls.LoadX509KeyPair(certFile, keyFile)
}

func Dial(network, addr string, _ *Config) (simnet.Conn, error)       { return simnet.Dial(network, addr) }
func Listen(network, addr string, _ *Config) (simnet.Listener, error) { return simnet.Listen(network, addr) }
