// Package tls replaces crypto/tls in rewritten code: the configuration types
// are the real ones, Dial and Listen use the simulated network (the TLS
// handshake itself is outside the simulation). Dial returns a concrete
// pointer type, like the real package: a failed dial yields a nil *Conn, and
// code that stores it in a net.Conn variable gets a non-nil interface.
package tls

import (
	realtls "crypto/tls"

	simnet "verif/sim/simnet"
)

type (
	Config      = realtls.Config
	Certificate = realtls.Certificate
)

// Conn is the client side of a simulated TLS connection.
type Conn struct{ *simnet.SimConn }

// Sim gives the dRPC stub access to the simulated connection underneath.
func (c *Conn) Sim() *simnet.SimConn { return c.SimConn }

const (
	VersionTLS12 = realtls.VersionTLS12
	VersionTLS13 = realtls.VersionTLS13
)

func X509KeyPair(certPEMBlock, keyPEMBlock []byte) (Certificate, error) {
	return realtls.X509KeyPair(certPEMBlock, keyPEMBlock)
}
func LoadX509KeyPair(certFile, keyFile string) (Certificate, error) {
	return realtls.LoadX509KeyPair(certFile, keyFile)
}

func Dial(network, addr string, _ *Config) (*Conn, error) {
	c, err := simnet.DialSim(addr)
	if err != nil {
		return nil, err
	}
	return &Conn{c}, nil
}

func Listen(network, addr string, _ *Config) (simnet.Listener, error) { return simnet.Listen(network, addr) }
