// Package runtime replaces the standard runtime package for rewritten code:
// Gosched becomes a simulator yield, the rest is passed through.
package runtime

import (
	realruntime "runtime"

	"verif/sim/simrt"
)

type (
	Frame    = realruntime.Frame
	Frames   = realruntime.Frames
	Func     = realruntime.Func
	MemStats = realruntime.MemStats
	Error    = realruntime.Error
)

const (
	GOOS   = realruntime.GOOS
	GOARCH = realruntime.GOARCH
)

func Gosched() { simrt.Yield(simrt.OpYield) }
func Goexit()  { realruntime.Goexit() }

func NumCPU() int                                  { return 16 }
func GOMAXPROCS(n int) int                         { return 16 }
func NumGoroutine() int                            { return realruntime.NumGoroutine() }
func GC()                                          {}
func KeepAlive(x any)                              { realruntime.KeepAlive(x) }
func Caller(skip int) (uintptr, string, int, bool) { return realruntime.Caller(skip + 1) }
func Callers(skip int, pc []uintptr) int           { return realruntime.Callers(skip+1, pc) }
func CallersFrames(pc []uintptr) *Frames           { return realruntime.CallersFrames(pc) }
func FuncForPC(pc uintptr) *Func                   { return realruntime.FuncForPC(pc) }
func Stack(buf []byte, all bool) int               { return realruntime.Stack(buf, false) }
func ReadMemStats(m *MemStats)                     { realruntime.ReadMemStats(m) }
func SetFinalizer(obj any, finalizer any)          {}
func Version() string                              { return realruntime.Version() }
