// Package context is the simulator's replacement for the standard context
// package: cancellation is the real implementation, deadlines run on the
// simulated clock and spawn no hidden goroutine.
package context

import (
	realctx "context"
	realtime "time"

	"verif/sim/simrt"
	simtime "verif/sim/simtime"
)

type (
	Context         = realctx.Context
	CancelFunc      = realctx.CancelFunc
	CancelCauseFunc = realctx.CancelCauseFunc
)

var (
	Canceled         = realctx.Canceled
	DeadlineExceeded = realctx.DeadlineExceeded
)

func Background() Context { return realctx.Background() }
func TODO() Context       { return realctx.TODO() }

func WithValue(parent Context, key, val any) Context { return realctx.WithValue(parent, key, val) }
func WithoutCancel(parent Context) Context           { return realctx.WithoutCancel(parent) }
func Cause(c Context) error                          { return realctx.Cause(c) }

func WithCancel(parent Context) (Context, CancelFunc) {
	ctx, cancel := realctx.WithCancel(parent)
	return ctx, func() {
		simrt.Yield(simrt.OpChan)
		cancel()
		simrt.ChanEvent()
	}
}

func WithCancelCause(parent Context) (Context, CancelCauseFunc) {
	ctx, cancel := realctx.WithCancelCause(parent)
	return ctx, func(cause error) {
		simrt.Yield(simrt.OpChan)
		cancel(cause)
		simrt.ChanEvent()
	}
}

// deadlineCtx is a cancel context whose deadline is a simulated timer.
type deadlineCtx struct {
	realctx.Context
	deadline realtime.Time
}

func (c *deadlineCtx) Deadline() (realtime.Time, bool) { return c.deadline, true }

func (c *deadlineCtx) Err() error {
	err := c.Context.Err()
	if err != nil && realctx.Cause(c.Context) == realctx.DeadlineExceeded {
		return realctx.DeadlineExceeded
	}
	return err
}

func WithDeadlineCause(parent Context, d realtime.Time, cause error) (Context, CancelFunc) {
	if cur, ok := parent.Deadline(); ok && cur.Before(d) {
		return WithCancel(parent)
	}
	inner, cancel := realctx.WithCancelCause(parent)
	c := &deadlineCtx{Context: inner, deadline: d}
	dur := d.Sub(simtime.Now())
	if dur <= 0 {
		cancel(realctx.DeadlineExceeded)
		return c, func() {}
	}
	h := simrt.AfterFunc(dur, func() { cancel(realctx.DeadlineExceeded) })
	return c, func() {
		simrt.Yield(simrt.OpChan)
		h.Stop()
		cancel(realctx.Canceled)
		simrt.ChanEvent()
	}
}

func WithDeadline(parent Context, d realtime.Time) (Context, CancelFunc) {
	return WithDeadlineCause(parent, d, nil)
}

func WithTimeout(parent Context, timeout realtime.Duration) (Context, CancelFunc) {
	return WithDeadline(parent, simtime.Now().Add(timeout))
}

func WithTimeoutCause(parent Context, timeout realtime.Duration, cause error) (Context, CancelFunc) {
	return WithDeadlineCause(parent, simtime.Now().Add(timeout), cause)
}

// AfterFunc runs f in its own task once ctx is done.
func AfterFunc(ctx Context, f func()) (stop func() bool) {
	stopped := false
	ran := false
	simrt.Go("context.AfterFunc", func() {
		simrt.Recv(ctx.Done())
		if stopped {
			return
		}
		ran = true
		f()
	})
	return func() bool {
		if ran || stopped {
			return false
		}
		stopped = true
		return true
	}
}
