// Package log replaces the standard log package for rewritten code: output is
// discarded and Fatal* is recorded as "the process would have exited".
package log

import (
	"fmt"

	"verif/sim/simrt"
)

func Fatal(v ...any)                 { simrt.Fatal(fmt.Sprint(v...)) }
func Fatalf(format string, v ...any) { simrt.Fatal(fmt.Sprintf(format, v...)) }
func Fatalln(v ...any)               { simrt.Fatal(fmt.Sprintln(v...)) }
func Panic(v ...any)                 { panic(fmt.Sprint(v...)) }
func Panicf(format string, v ...any) { panic(fmt.Sprintf(format, v...)) }
func Panicln(v ...any)               { panic(fmt.Sprintln(v...)) }
func Print(v ...any)                 {}
func Printf(format string, v ...any) {}
func Println(v ...any)               {}
func SetFlags(int)                   {}
func SetPrefix(string)               {}
