package simrt

import "math/rand/v2"

// EnvRand is the PRNG behind the math/rand shim handed to the code under test
// (actor ids, response ids, random member selection). It is seeded from the
// run seed and independent of the scheduling tapes.
func EnvRand() *rand.Rand {
	if W == nil {
		return fallbackRand
	}
	return W.envrng
}

var fallbackRand = rand.New(rand.NewPCG(1, 2))

// SmallIDs, when >0, makes the math/rand shim draw from [0,SmallIDs): the
// "rare but legal" id collision (buggify), off by default.
var SmallIDs int

// InRun reports whether a simulation is active.
func InRun() bool { return W != nil }

// Seed returns the seed of the current run.
func Seed() uint64 { return W.cfg.Seed }

// ProbeCount returns how often a probe fired in the current run.
func ProbeCount(name string) int {
	if W == nil {
		return 0
	}
	return W.probes[name]
}

// FaultCount returns how often a fault kind fired in the current run.
func FaultCount(name string) int {
	if W == nil {
		return 0
	}
	return W.faults[name]
}

// Local returns run-local storage for the simulated substrates (network,
// discovery): created on first use in each run.
func Local(key string, mk func() any) any {
	w := W
	if w == nil {
		panic("simrt: Local outside a run")
	}
	if w.locals == nil {
		w.locals = map[string]any{}
	}
	v, ok := w.locals[key]
	if !ok {
		v = mk()
		w.locals[key] = v
	}
	return v
}
