// Package simrt is the core of the deterministic simulator: tasks, the baton,
// the seeded scheduler, the simulated clock, the choice tapes, the event log
// and the happens-before tracker.
//
// Exactly one task runs at any instant. Every other goroutine that belongs to
// the simulation is parked on its private wake channel. All decisions are
// drawn from tapes (search mode: from a PRNG and recorded; replay mode: read
// back), so a run is a pure function of (binary, config, tapes).
package simrt

import (
	"container/heap"
	"fmt"
	"math/rand/v2"
	"runtime"
	"runtime/debug"
	"strings"
	"sync/atomic"
	"time"
)

// OpKind labels the operation a task is about to perform at a yield point.
type OpKind uint8

const (
	OpYield OpKind = iota
	OpLock
	OpAtomic
	OpChan
	OpSelect
	OpTime
	OpNet
	OpGo
	OpWait
	OpUser
	OpStart
)

var opNames = [...]string{"yield", "lock", "atomic", "chan", "select", "time", "net", "go", "wait", "user", "start"}

func (o OpKind) String() string { return opNames[o] }

type taskState uint8

const (
	stRunnable taskState = iota
	stBlocked
	stPolling
	stQuiet
	stDone
)

// Task is one simulated goroutine.
type Task struct {
	ID      int
	Name    string
	Node    int
	wake    chan struct{}
	done    chan struct{}
	state   taskState
	ready   func() bool
	what    string
	seen    uint64
	force   bool
	killed  bool
	prio    int64
	vc      []uint32
	quietAt int64 // deadline (sim ns) for stQuiet
	started bool
	// Local is scratch storage for the harness.
	Local any
	// scripted: the task is unwinding from a deliberate panic raised by a
	// harness receiver on behalf of the scenario (ScriptedPanic)
	scripted bool
}

// Crash describes an un-recovered panic in a simulated goroutine (the real
// process would have died) or a log.Fatal/os.Exit.
type Crash struct {
	Task    string
	Node    int
	Value   string
	Stack   string
	Origin  string // function in which the panic was raised
	Harness bool   // raised by harness/simulator code: machinery bug, never a finding
	Exit    bool   // log.Fatal / os.Exit
}

// Config configures one run.
type Config struct {
	Seed      uint64
	MaxSteps  uint64
	SchedTape   []uint32
	GenTape     []uint32
	ReplaySched bool // read scheduling choices from SchedTape (missing entries = 0)
	ReplayGen   bool // read generation choices from GenTape (missing entries = 0)
	Trace     bool
	HB        bool
	// Strategy overrides ("" = choose from seed)
	Strategy string
	// TimeSkip allows the scheduler to let simulated time pass (fire the next
	// timer) while tasks are still runnable: everything stalls, clocks jump.
	TimeSkip bool
}

// Result is what a run produced at simulator level.
type Result struct {
	EndReason string // "main-done", "crash", "steps", "deadlock", "harness-panic"
	Crash     *Crash
	Steps     uint64
	SimNanos  int64
	Hash      uint64
	SchedHash uint64
	HistHash  uint64
	SchedTape []uint32
	GenTape   []uint32
	Strategy  string
	Trace     []string
	Faults    map[string]int
	Probes    map[string]int
	Tasks     int
	Switches  uint64
	Blocked   []string // description of tasks still blocked at the end
}

// World is the state of the simulation. There is one per process at a time.
type World struct {
	cfg      Config
	tasks    []*Task
	cur      *Task
	main     *Task
	nextID   int
	epoch    uint64
	chanEpoch uint64
	fullPoll  uint64 // epoch at which all pollers were last force-retried
	now      int64
	timers   timerHeap
	timerSeq uint64
	steps    uint64
	switches uint64
	sched    *Tape
	gen      *Tape
	rng      *rand.Rand // scheduling strategy randomness (search mode only)
	envrng   *rand.Rand // randomness handed to the code under test
	strat    strategy
	hash     uint64
	shash    uint64
	hhash    uint64
	trace    []string
	crash    *Crash
	ended    string
	driver   chan struct{}
	faults   map[string]int
	probes   map[string]int
	hbOn     bool
	addrVC   map[uintptr]*[]uint32
	accesses map[any]*accessState
	races    []string
	offers   map[uintptr][]*offer
	nodeDown map[int]bool
	atExit   []func()
	allTasks int
	locals   map[string]any
}

// W is the current world (nil outside a run).
var W *World

var runSeq uint64

// RunSeq numbers the runs executed by this process (run-scoped caches in the
// shims compare against it).
func RunSeq() uint64 { return runSeq }

// Progress is bumped on every scheduling step; a real-time watchdog in the
// worker process reads it to detect a wedged simulation.
var Progress atomic.Uint64

const fnvOff = 14695981039346656037
const fnvPrime = 1099511628211

func mix(h uint64, s string) uint64 {
	for i := 0; i < len(s); i++ {
		h ^= uint64(s[i])
		h *= fnvPrime
	}
	h ^= 0xff
	h *= fnvPrime
	return h
}

func mixU(h uint64, v uint64) uint64 {
	for i := 0; i < 8; i++ {
		h ^= v & 0xff
		h *= fnvPrime
		v >>= 8
	}
	return h
}

// Run executes main as task 0 of a fresh world and returns when it has
// finished (or the run was ended), after killing every remaining task.
// It must be called from a plain goroutine, never from inside a run.
func Run(cfg Config, main func()) *Result {
	if W != nil {
		panic("simrt: nested Run")
	}
	if cfg.MaxSteps == 0 {
		cfg.MaxSteps = 2_000_000
	}
	w := &World{
		cfg:      cfg,
		driver:   make(chan struct{}, 1),
		faults:   map[string]int{},
		probes:   map[string]int{},
		hash:     fnvOff,
		shash:    fnvOff,
		hhash:    fnvOff,
		hbOn:     cfg.HB,
		addrVC:   map[uintptr]*[]uint32{},
		accesses: map[any]*accessState{},
		offers:   map[uintptr][]*offer{},
		nodeDown: map[int]bool{},
	}
	w.rng = rand.New(rand.NewPCG(cfg.Seed, 0x9e3779b97f4a7c15))
	w.envrng = rand.New(rand.NewPCG(cfg.Seed^0x5851f42d4c957f2d, 0x14057b7ef767814f))
	w.sched = newTape(cfg.SchedTape, cfg.ReplaySched)
	w.gen = newTape(cfg.GenTape, cfg.ReplayGen)
	w.strat = newStrategy(w, cfg.Strategy)
	W = w
	runSeq++
	resetKnobs()

	t := w.newTask("main", 0)
	w.main = t
	w.cur = t
	go w.taskBody(t, main)
	t.wake <- struct{}{}
	<-w.driver

	// Kill everything that is left, one task at a time.
	for _, f := range w.atExit {
		f()
	}
	for len(w.tasks) > 0 {
		v := w.tasks[0]
		w.killTask(v)
	}
	res := &Result{
		EndReason: w.ended,
		Crash:     w.crash,
		Steps:     w.steps,
		SimNanos:  w.now,
		Hash:      w.hash,
		SchedHash: w.shash,
		HistHash:  w.hhash,
		SchedTape: w.sched.out,
		GenTape:   w.gen.out,
		Strategy:  w.strat.name(),
		Trace:     w.trace,
		Faults:    w.faults,
		Probes:    w.probes,
		Tasks:     w.allTasks,
		Switches:  w.switches,
	}
	W = nil
	return res
}

func (w *World) newTask(name string, node int) *Task {
	t := &Task{ID: w.nextID, Name: name, Node: node, wake: make(chan struct{}, 1), done: make(chan struct{})}
	w.nextID++
	w.allTasks++
	w.tasks = append(w.tasks, t)
	t.prio = w.strat.newPrio(t)
	if w.hbOn {
		if w.cur != nil {
			t.vc = append([]uint32(nil), w.cur.vc...)
			w.tick(w.cur)
		}
		w.tick(t)
	}
	return t
}

func (w *World) removeTask(t *Task) {
	for i, x := range w.tasks {
		if x == t {
			w.tasks = append(w.tasks[:i], w.tasks[i+1:]...)
			return
		}
	}
}

// killTask makes a parked task unwind (runtime.Goexit) while the caller waits.
func (w *World) killTask(v *Task) {
	if v.state == stDone {
		w.removeTask(v)
		return
	}
	v.killed = true
	for k, q := range w.offers {
		for i := 0; i < len(q); i++ {
			if q[i].from == v {
				q = append(q[:i], q[i+1:]...)
				i--
			}
		}
		if len(q) == 0 {
			delete(w.offers, k)
		} else {
			w.offers[k] = q
		}
	}
	prev := w.cur
	w.cur = v
	v.wake <- struct{}{}
	<-v.done
	w.cur = prev
	w.removeTask(v)
}

func (w *World) taskBody(t *Task, fn func()) {
	defer func() {
		r := recover()
		t.state = stDone
		if t.killed {
			// The killer waits on done and owns the baton again afterwards.
			close(t.done)
			return
		}
		if r != nil {
			w.recordPanic(t, r)
			w.removeTask(t)
			close(t.done)
			w.end(ifElse(w.crash != nil && w.crash.Harness, "harness-panic", "crash"))
			w.driver <- struct{}{}
			return
		}
		w.removeTask(t)
		close(t.done)
		if t == w.main {
			w.end("main-done")
			w.driver <- struct{}{}
			return
		}
		// hand the baton on
		w.epoch++
		next := w.pick()
		if next == nil {
			w.driver <- struct{}{}
			return
		}
		w.cur = next
		w.switches++
		next.wake <- struct{}{}
	}()
	<-t.wake
	if t.killed {
		return
	}
	t.started = true
	fn()
}

func ifElse(c bool, a, b string) string {
	if c {
		return a
	}
	return b
}

func (w *World) end(reason string) {
	if w.ended == "" {
		w.ended = reason
	}
}

func (w *World) recordPanic(t *Task, r any) {
	if w.crash != nil {
		return
	}
	stack := string(debug.Stack())
	origin := panicOrigin(stack)
	c := &Crash{Task: t.Name, Node: t.Node, Value: fmt.Sprint(r), Stack: stack, Origin: origin}
	if ex, ok := r.(exitPanic); ok {
		c.Exit = true
		c.Value = ex.msg
	} else if t.scripted || strings.HasPrefix(c.Value, "scripted crash") || strings.HasPrefix(c.Value, "&{scripted crash") {
		// a deliberate actor crash raised by a harness receiver that nobody
		// recovered: the code under test failed to contain it
	} else if strings.HasPrefix(origin, "verif/") || strings.HasPrefix(origin, "main.") {
		c.Harness = true
	}
	w.crash = c
}

// panicOrigin extracts the function that raised the panic from a stack
// printed inside the recovering deferred function.
func panicOrigin(stack string) string {
	lines := strings.Split(stack, "\n")
	for i := 0; i < len(lines); i++ {
		if strings.HasPrefix(lines[i], "panic(") || strings.HasPrefix(lines[i], "runtime.panic") || strings.HasPrefix(lines[i], "runtime.goPanic") || strings.HasPrefix(lines[i], "runtime.sigpanic") {
			// skip runtime frames
			j := i + 2
			// ... and the channel primitives that stand in for the caller's own
			// channel statements: "send on closed channel" and the like are
			// raised by the code that wrote the statement
			for j < len(lines) && (strings.HasPrefix(lines[j], "runtime.") || (j+1 < len(lines) && strings.Contains(lines[j+1], "/sim/simrt/chan.go:"))) {
				j += 2
			}
			if j < len(lines) {
				f := lines[j]
				if k := strings.LastIndex(f, "("); k > 0 {
					f = f[:k]
				}
				return f
			}
		}
	}
	return "?"
}

func (t *Task) park() {
	<-t.wake
	if t.killed {
		runtime.Goexit()
	}
}

// candidates returns the tasks that could take a step now, the current task
// first, the others in creation order.
func (w *World) candidates(buf []*Task) []*Task {
	buf = buf[:0]
	cur := w.cur
	if cur != nil && cur.state != stDone && w.isCand(cur) {
		buf = append(buf, cur)
	}
	for _, t := range w.tasks {
		if t != cur && w.isCand(t) {
			buf = append(buf, t)
		}
	}
	return buf
}

func (w *World) isCand(t *Task) bool {
	switch t.state {
	case stRunnable:
		return true
	case stBlocked:
		return t.ready()
	case stPolling:
		return w.chanEpoch > t.seen || t.force
	}
	return false
}

var candBuf [64]*Task

// pick chooses the next task to run. It fires timers when nothing else can
// run (or when the strategy decides to let time pass) and resumes a
// quiescence waiter when the world is quiet. nil means the run is over.
func (w *World) pick() *Task {
	for {
		if w.ended != "" {
			return nil
		}
		w.steps++
		Progress.Add(1)
		if w.steps > w.cfg.MaxSteps {
			w.end("steps")
			return nil
		}
		cands := w.candidates(candBuf[:0])
		haveTimer := len(w.timers) > 0
		if len(cands) == 0 && w.fullPoll != w.epoch {
			// before concluding that nothing can run, every parked poller gets
			// one more try after the last real step: a wake-up source the
			// simulator does not know about can then never be missed
			w.fullPoll = w.epoch
			any := false
			for _, t := range w.tasks {
				if t.state == stPolling {
					t.force = true
					any = true
				}
			}
			if any {
				continue
			}
		}
		if len(cands) == 0 {
			var q *Task
			for _, t := range w.tasks {
				if t.state == stQuiet {
					q = t
					break
				}
			}
			if haveTimer && (q == nil || w.timers[0].at <= q.quietAt) {
				w.fireTimer()
				continue
			}
			if q != nil {
				return q
			}
			w.end("deadlock")
			return nil
		}
		n := len(cands)
		opts := n
		if haveTimer && w.cfg.TimeSkip {
			opts = n + 1
		}
		idx := 0
		if opts > 1 {
			idx = w.sched.next(opts, func() int { return w.strat.pick(cands, opts > n) })
		}
		if idx >= n {
			w.Fault("time-jump-while-runnable")
			w.fireTimer()
			continue
		}
		t := cands[idx]
		w.shash = mixU(w.shash, uint64(t.ID))
		return t
	}
}

// resched: the current task gives up the baton (its state is already set).
func (w *World) resched() {
	t := w.cur
	next := w.pick()
	if next == nil {
		w.driver <- struct{}{}
		t.park() // will be killed
		return
	}
	if next == t {
		t.state = stRunnable
		return
	}
	w.cur = next
	w.switches++
	if w.cfg.Trace {
		w.trace = append(w.trace, fmt.Sprintf("%6d t=%-10v   switch %d:%s -> %d:%s", w.steps, time.Duration(w.now), t.ID, t.Name, next.ID, next.Name))
	}
	next.wake <- struct{}{}
	t.park()
	t.state = stRunnable
}

// Cur returns the running task.
func Cur() *Task { return W.cur }

// Killed reports whether the current task is being unwound.
func Killed() bool { return W == nil || W.cur == nil || W.cur.killed }

// Yield is a pre-emption point: the scheduler may run other tasks first.
func Yield(op OpKind) {
	w := W
	if w == nil || w.cur.killed {
		return
	}
	t := w.cur
	t.state = stRunnable
	w.epoch++
	w.resched()
}

// Block parks the current task until ready() holds. ready must only read
// simulator state. A killed task never returns from Block.
func Block(what string, ready func() bool) {
	w := W
	if w == nil {
		panic("simrt: Block outside a run: " + what)
	}
	t := w.cur
	if t.killed {
		runtime.Goexit()
	}
	if ready() {
		return
	}
	w.epoch++
	t.state = stBlocked
	t.ready = ready
	t.what = what
	w.resched()
	t.ready = nil
}

// Poll parks the current task until some other task or a timer has taken a
// step since; used by the channel helpers, which then retry.
func Poll(what string) {
	w := W
	t := w.cur
	if t.killed {
		runtime.Goexit()
	}
	t.state = stPolling
	t.seen = w.chanEpoch
	t.force = false
	t.what = what
	w.resched()
}

// ChanEvent tells the scheduler that something happened that can complete a
// parked channel operation (send, close, context cancellation, timer).
func ChanEvent() {
	if W != nil {
		W.chanEpoch++
	}
}

// Close closes a channel (the rewriter routes the close builtin through it).
func Close[T any](ch chan<- T) {
	if W != nil && !W.cur.killed {
		Yield(OpChan)
		W.chanEpoch++
	}
	close(ch)
}

// ParkForever blocks the current task for the rest of the run (select{}).
func ParkForever() {
	Block("forever", func() bool { return false })
}

// Go starts fn as a new task on the node of the current task.
func Go(name string, fn func()) *Task {
	w := W
	if w == nil {
		panic("simrt: Go outside a run")
	}
	if w.cur.killed {
		return nil
	}
	return GoNode(w.cur.Node, name, fn)
}

// GoNode starts fn as a new task labelled with node.
func GoNode(node int, name string, fn func()) *Task {
	w := W
	if w.cur.killed {
		return nil
	}
	t := w.newTask(name, node)
	go w.taskBody(t, fn)
	w.epoch++
	return t
}

// SetNode relabels the current task (harness use: run node set-up code on
// behalf of a node so that everything it spawns belongs to it).
func SetNode(n int) int {
	old := W.cur.Node
	W.cur.Node = n
	return old
}

// KillNode unwinds every task labelled node, one at a time. Called by a
// harness task that is not itself on that node.
func KillNode(node int) int {
	w := W
	n := 0
	w.nodeDown[node] = true
	for {
		var v *Task
		for _, t := range w.tasks {
			if t.Node == node && t != w.cur && t.state != stDone {
				v = t
				break
			}
		}
		if v == nil {
			break
		}
		w.killTask(v)
		n++
	}
	w.epoch++
	w.chanEpoch++
	return n
}

// NodeDown reports whether KillNode was applied to node (until NodeUp).
func NodeDown(node int) bool { return W.nodeDown[node] }

// NodeUp clears the down mark of a node.
func NodeUp(node int) { delete(W.nodeDown, node) }

// ScriptedPanic panics with v on behalf of the scenario: a harness receiver
// playing an actor that crashes, with whatever panic value the scenario wants
// (a string, an error, a typed nil, ...). If nothing recovers it, the crash
// is attributed to the code under test, which failed to contain it.
func ScriptedPanic(v any) {
	W.cur.scripted = true
	panic(v)
}

// ScriptedPanicOver is called by harness receivers on entry: an earlier
// scripted panic on this task has been recovered.
func ScriptedPanicOver() { W.cur.scripted = false }

// WaitQuiet parks the caller until nothing else can run and no timer is due
// within limit of simulated time. It returns true when no timer is pending at
// all (complete quiescence).
func WaitQuiet(limit time.Duration) bool {
	w := W
	t := w.cur
	if t.killed {
		runtime.Goexit()
	}
	t.state = stQuiet
	t.quietAt = w.now + int64(limit)
	t.what = "quiet"
	w.resched()
	return len(w.timers) == 0
}

// AtExit registers f to run on the driver after the run ended, before the
// remaining tasks are killed.
func AtExit(f func()) { W.atExit = append(W.atExit, f) }

// EndRun ends the run from inside a task (e.g. an online invariant failed).
func EndRun(reason string) {
	w := W
	if w.cur.killed {
		runtime.Goexit()
	}
	w.end(reason)
	w.driver <- struct{}{}
	w.cur.park()
}

type exitPanic struct{ msg string }

// Fatal models log.Fatal / os.Exit: the process would have exited.
func Fatal(msg string) {
	if W == nil || W.cur.killed {
		runtime.Goexit()
	}
	panic(exitPanic{msg})
}

// Steps returns the number of scheduling steps so far.
func Steps() uint64 { return W.steps }

// Now returns simulated nanoseconds since the start of the run.
func Now() int64 { return W.now }

// Fault counts an injected fault that actually fired.
func (w *World) Fault(kind string) { w.faults[kind]++ }

// Fault counts an injected fault that actually fired.
func Fault(kind string) { W.faults[kind]++ }

// Probe counts a "this rare condition was reached" observation.
func Probe(name string) {
	if W != nil {
		W.probes[name]++
	}
}

// Ev appends to the event log (hash always, text only when tracing).
func Ev(format string, args ...any) {
	w := W
	if w == nil {
		return
	}
	if w.cfg.Trace {
		s := fmt.Sprintf(format, args...)
		w.hash = mix(w.hash, s)
		w.hhash = mix(w.hhash, s)
		w.trace = append(w.trace, fmt.Sprintf("%6d t=%-10v [%d:%s] %s", w.steps, time.Duration(w.now), w.cur.ID, w.cur.Name, s))
		return
	}
	s := fmt.Sprintf(format, args...)
	w.hash = mix(w.hash, s)
	w.hhash = mix(w.hhash, s)
}

// Tracing reports whether the run records a textual trace.
func Tracing() bool { return W != nil && W.cfg.Trace }

// TraceOp records a low-level operation in the trace (replay mode only).
func TraceOp(format string, args ...any) {
	w := W
	if w == nil || !w.cfg.Trace {
		return
	}
	w.trace = append(w.trace, fmt.Sprintf("%6d t=%-10v [%d:%s]   . %s", w.steps, time.Duration(w.now), w.cur.ID, w.cur.Name, fmt.Sprintf(format, args...)))
}

// BlockedTasks describes tasks that are parked (diagnostics).
func BlockedTasks() []string {
	var out []string
	for _, t := range W.tasks {
		if t.state == stBlocked || t.state == stPolling {
			out = append(out, fmt.Sprintf("%d:%s@%s", t.ID, t.Name, t.what))
		}
	}
	return out
}

// ---------------------------------------------------------------- timers

type timer struct {
	at   int64
	seq  uint64
	fn   func()
	idx  int
	dead bool
}

type timerHeap []*timer

func (h timerHeap) Len() int { return len(h) }
func (h timerHeap) Less(i, j int) bool {
	if h[i].at != h[j].at {
		return h[i].at < h[j].at
	}
	return h[i].seq < h[j].seq
}
func (h timerHeap) Swap(i, j int) { h[i], h[j] = h[j], h[i]; h[i].idx = i; h[j].idx = j }
func (h *timerHeap) Push(x any)   { t := x.(*timer); t.idx = len(*h); *h = append(*h, t) }
func (h *timerHeap) Pop() any {
	old := *h
	n := len(old)
	t := old[n-1]
	*h = old[:n-1]
	t.idx = -1
	return t
}

func (w *World) fireTimer() {
	t := heap.Pop(&w.timers).(*timer)
	if t.at > w.now {
		w.now = t.at
	}
	w.epoch++
	w.chanEpoch++
	t.fn()
}

// TimerHandle identifies a pending simulated timer.
type TimerHandle struct{ t *timer }

// AfterFunc runs fn on the scheduler (it must not block or yield) after d of
// simulated time.
func AfterFunc(d time.Duration, fn func()) TimerHandle {
	w := W
	if d < 0 {
		d = 0
	}
	w.timerSeq++
	t := &timer{at: w.now + int64(d), seq: w.timerSeq, fn: fn}
	heap.Push(&w.timers, t)
	return TimerHandle{t}
}

// Stop cancels the timer; it reports whether it was still pending.
func (h TimerHandle) Stop() bool {
	if h.t == nil || h.t.idx < 0 || W == nil {
		return false
	}
	heap.Remove(&W.timers, h.t.idx)
	return true
}

// Pending reports whether the timer has not fired yet.
func (h TimerHandle) Pending() bool { return h.t != nil && h.t.idx >= 0 }

// Sleep blocks the current task for d of simulated time.
func Sleep(d time.Duration) {
	if W == nil {
		time.Sleep(d)
		return
	}
	if W.cur.killed {
		runtime.Goexit()
	}
	if d <= 0 {
		Yield(OpTime)
		return
	}
	fired := false
	AfterFunc(d, func() { fired = true })
	Block("sleep", func() bool { return fired })
}

// PendingTimers returns the number of timers in the queue.
func PendingTimers() int { return len(W.timers) }
