package simrt

// Tuning knobs: constants of the code under test (batch sizes, inbox sizes)
// that the rewriter turned into package variables registered here, so that a
// run can shrink them and reach batch splits, growth and wrap with a handful
// of messages. A knob that the rewriter did not find is simply never
// registered; nothing depends on a knob for soundness.

type knob struct {
	set   func(int64)
	deflt int64
}

var knobs = map[string]*knob{}

// Int is the constraint of knob variables.
type Int interface {
	~int | ~int8 | ~int16 | ~int32 | ~int64 | ~uint | ~uint8 | ~uint16 | ~uint32 | ~uint64
}

// RegisterKnob is called from init() functions the rewriter adds.
func RegisterKnob[T Int](name string, p *T) {
	d := int64(*p)
	knobs[name] = &knob{set: func(v int64) { *p = T(v) }, deflt: d}
}

// SetKnob overrides a knob for the current run; it reports whether the knob
// exists in this build.
func SetKnob(name string, v int64) bool {
	k := knobs[name]
	if k == nil {
		return false
	}
	k.set(v)
	return true
}

// KnobDefault returns the shipped value of a knob.
func KnobDefault(name string) (int64, bool) {
	k := knobs[name]
	if k == nil {
		return 0, false
	}
	return k.deflt, true
}

// KnobNames lists registered knobs (sorted by the caller if needed).
func KnobNames() []string {
	var out []string
	for n := range knobs {
		out = append(out, n)
	}
	return out
}

func resetKnobs() {
	for _, k := range knobs {
		k.set(k.deflt)
	}
	bigInboxCap = 0
}

var bigInboxCap int

// SetBigInboxCap bounds very large constant inbox sizes (the remote router's
// 1Mi-slot ring) for the current run; 0 = leave as shipped. The ring grows on
// demand, so behaviour is unchanged; only allocation cost is.
func SetBigInboxCap(n int) { bigInboxCap = n }

// CapInboxSize is wrapped by the rewriter around constant inbox sizes >= 64Ki.
func CapInboxSize(n int) int {
	if bigInboxCap > 0 && n > bigInboxCap {
		return bigInboxCap
	}
	return n
}
