package simrt

import "fmt"

// Happens-before tracker (vector clocks). The shims report every
// synchronisation operation: mutex unlock->lock, each atomic operation on an
// address (treated as both acquire and release: an over-approximation of the
// Go memory model's synchronised-before), channel operations, WaitGroup,
// task creation. The baton that serialises tasks is invisible to it, so
// serial execution does not hide missing synchronisation. Because the tracked
// relation only ever over-approximates real happens-before, the checker can
// miss a race but never invent one.

func (w *World) tick(t *Task) {
	for len(t.vc) <= t.ID {
		t.vc = append(t.vc, 0)
	}
	t.vc[t.ID]++
}

func (w *World) acquire(t *Task, obj *[]uint32) {
	o := *obj
	for len(t.vc) < len(o) {
		t.vc = append(t.vc, 0)
	}
	for i, v := range o {
		if v > t.vc[i] {
			t.vc[i] = v
		}
	}
}

func (w *World) release(t *Task, obj *[]uint32) {
	o := *obj
	for len(o) < len(t.vc) {
		o = append(o, 0)
	}
	for i, v := range t.vc {
		if v > o[i] {
			o[i] = v
		}
	}
	*obj = o
	w.tick(t)
}

// HBAcquire joins the object's clock into the current task's clock.
func HBAcquire(obj *[]uint32) {
	w := W
	if w == nil || !w.hbOn || w.cur.killed {
		return
	}
	w.acquire(w.cur, obj)
}

// HBRelease joins the current task's clock into the object's clock.
func HBRelease(obj *[]uint32) {
	w := W
	if w == nil || !w.hbOn || w.cur.killed {
		return
	}
	w.release(w.cur, obj)
}

// HBAtomic records an atomic operation on addr (acquire + release).
func HBAtomic(addr uintptr) {
	w := W
	if w == nil || !w.hbOn || w.cur.killed {
		return
	}
	vc := w.addrVC[addr]
	if vc == nil {
		vc = new([]uint32)
		w.addrVC[addr] = vc
	}
	w.acquire(w.cur, vc)
	w.release(w.cur, vc)
}

type stamp struct {
	tid int
	clk uint32
	who string
}

type accessState struct {
	lastWrite stamp
	hasWrite  bool
	reads     []stamp
}

func (w *World) ordered(s stamp, t *Task) bool {
	if s.tid == t.ID {
		return true
	}
	return s.tid < len(t.vc) && t.vc[s.tid] >= s.clk
}

// Access records an unsynchronised access by the current task to the object
// identified by key and reports a race when it is not ordered after the
// conflicting earlier accesses by the tracked happens-before relation.
func Access(key any, write bool, what string) {
	w := W
	if w == nil || !w.hbOn || w.cur.killed {
		return
	}
	t := w.cur
	st := w.accesses[key]
	if st == nil {
		st = &accessState{}
		w.accesses[key] = st
	}
	for len(t.vc) <= t.ID {
		t.vc = append(t.vc, 0)
	}
	me := stamp{t.ID, t.vc[t.ID], fmt.Sprintf("%s by task %d:%s", what, t.ID, t.Name)}
	if st.hasWrite && !w.ordered(st.lastWrite, t) {
		w.races = append(w.races, fmt.Sprintf("%s not ordered after write %s", me.who, st.lastWrite.who))
	}
	if write {
		for _, r := range st.reads {
			if !w.ordered(r, t) {
				w.races = append(w.races, fmt.Sprintf("%s not ordered after read %s", me.who, r.who))
			}
		}
		st.reads = st.reads[:0]
		st.lastWrite = me
		st.hasWrite = true
	} else {
		st.reads = append(st.reads, me)
	}
}

// Races returns the unordered conflicting accesses seen so far.
func Races() []string {
	if W == nil {
		return nil
	}
	return W.races
}
