package simrt

import (
	"reflect"
	"runtime"
)

// Channel helpers. Rewritten code never blocks on a real channel: every
// operation is "yield, try without blocking, otherwise park until the world
// has changed, retry". Because exactly one task runs at a time this is
// deterministic. Buffered channels and close() use the real channel;
// rendezvous on unbuffered channels goes through an offer table, because two
// non-blocking attempts can never meet on a real unbuffered channel.

type offer struct {
	val   any
	taken bool
	from  *Task
}

func chanKey(ch any) uintptr { return reflect.ValueOf(ch).Pointer() }

func hbChan(w *World, key uintptr, release bool) {
	if !w.hbOn {
		return
	}
	vc := w.addrVC[key]
	if vc == nil {
		vc = new([]uint32)
		w.addrVC[key] = vc
	}
	// channels are treated as two-way synchronisation (over-approximation)
	w.acquire(w.cur, vc)
	w.release(w.cur, vc)
	_ = release
}

// TrySend attempts ch <- v without blocking.
func TrySend[T any](ch chan<- T, v T) bool {
	if ch == nil {
		return false
	}
	w := W
	if cap(ch) == 0 {
		// is the channel closed? a send on a closed channel panics in Go;
		// the real non-blocking send reproduces that.
		// An unbuffered send succeeds only when a receiver takes the offer,
		// which is handled by Send (blocking) below; a non-blocking attempt
		// (select with default) never finds a waiting receiver here.
		return false
	}
	select {
	case ch <- v:
		hbChan(w, chanKey(ch), true)
		w.chanEpoch++
		return true
	default:
		return false
	}
}

// Send performs ch <- v.
func Send[T any](ch chan<- T, v T) {
	w := W
	if w == nil {
		ch <- v
		return
	}
	if w.cur.killed {
		runtime.Goexit()
	}
	Yield(OpChan)
	if ch == nil {
		ParkForever()
	}
	if cap(ch) == 0 {
		key := chanKey(ch)
		o := &offer{val: v, from: w.cur}
		w.offers[key] = append(w.offers[key], o)
		w.chanEpoch++
		hbChan(w, key, true)
		Block("chan-send", func() bool { return o.taken })
		hbChan(w, key, true)
		return
	}
	for !TrySend(ch, v) {
		Poll("chan-send")
	}
}

func takeOffer[T any](w *World, ch <-chan T) (T, bool) {
	var zero T
	if cap(ch) != 0 {
		return zero, false
	}
	key := chanKey(ch)
	q := w.offers[key]
	if len(q) == 0 {
		return zero, false
	}
	o := q[0]
	if len(q) == 1 {
		delete(w.offers, key)
	} else {
		w.offers[key] = q[1:]
	}
	o.taken = true
	hbChan(w, key, false)
	v, _ := o.val.(T)
	return v, true
}

// TryRecv attempts v := <-ch without blocking; got reports whether the
// operation completed (a closed channel completes with the zero value).
func TryRecv[T any](ch <-chan T) (v T, got bool) {
	v, _, got = TryRecv2(ch)
	return
}

// TryRecv2 attempts v, ok := <-ch without blocking.
func TryRecv2[T any](ch <-chan T) (v T, ok bool, got bool) {
	if ch == nil {
		return
	}
	w := W
	select {
	case v, ok = <-ch:
		if w != nil {
			hbChan(w, chanKey(ch), false)
		}
		return v, ok, true
	default:
	}
	if w != nil {
		if v, took := takeOffer(w, ch); took {
			return v, true, true
		}
	}
	return
}

// Recv performs <-ch.
func Recv[T any](ch <-chan T) T {
	v, _ := Recv2(ch)
	return v
}

// Recv2 performs v, ok := <-ch.
func Recv2[T any](ch <-chan T) (T, bool) {
	w := W
	if w == nil {
		v, ok := <-ch
		return v, ok
	}
	if w.cur.killed {
		runtime.Goexit()
	}
	Yield(OpChan)
	if ch == nil {
		ParkForever()
	}
	for {
		if v, ok, got := TryRecv2(ch); got {
			return v, ok
		}
		Poll("chan-recv")
	}
}

// Sel drives a rewritten select statement: the cases are attempted one at a
// time in a scheduler-chosen order; when none is ready the task parks until
// the world has changed (or runs the default case).
type Sel struct {
	n      int
	hasDef bool
	order  []int
	pos    int
	first  bool
}

// Select starts a rewritten select with n communication cases.
func Select(n int, hasDefault bool) *Sel {
	return &Sel{n: n, hasDef: hasDefault, first: true}
}

// Next returns the index of the next case to attempt, or -1 for the default
// case.
func (s *Sel) Next() int {
	w := W
	if w.cur.killed {
		runtime.Goexit()
	}
	if s.first {
		s.first = false
		Yield(OpSelect)
		s.order = Perm(s.n)
		s.pos = 0
	}
	for {
		if s.pos < len(s.order) {
			i := s.order[s.pos]
			s.pos++
			return i
		}
		if s.hasDef {
			return -1
		}
		if s.n == 0 {
			ParkForever()
		}
		Poll("select")
		s.order = Perm(s.n)
		s.pos = 0
	}
}
