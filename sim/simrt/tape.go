package simrt

// Tape is a sequence of bounded choices. In search mode values come from a
// PRNG-driven function and are recorded; in replay mode they are read back
// (out-of-range or missing entries fall back to 0, the "simplest" choice:
// keep running the current task / no fault / smallest value), which is what
// makes chunk deletion and zeroing valid shrink steps.
type Tape struct {
	replay bool
	in     []uint32
	pos    int
	out    []uint32
}

func newTape(in []uint32, replay bool) *Tape {
	return &Tape{replay: replay, in: in}
}

func (t *Tape) next(n int, search func() int) int {
	if n <= 1 {
		return 0
	}
	v := 0
	if t.replay {
		if t.pos < len(t.in) {
			v = int(t.in[t.pos])
			if v >= n {
				v = 0
			}
		}
		t.pos++
	} else {
		v = search()
		if v < 0 || v >= n {
			v = 0
		}
	}
	t.out = append(t.out, uint32(v))
	return v
}

// IntN draws a scheduling-time choice in [0,n) (delays, fault placement).
// 0 must be the benign value.
func IntN(n int) int {
	w := W
	return w.sched.next(n, func() int { return w.rng.IntN(n) })
}

// Chance draws a scheduling-time coin with probability p of true. false is
// the benign value.
func Chance(p float64) bool {
	w := W
	if p <= 0 {
		return false
	}
	return w.sched.next(2, func() int {
		if w.rng.Float64() < p {
			return 1
		}
		return 0
	}) == 1
}

// Gen is the scenario-generation chooser.
type Gen struct{ w *World }

// G returns the scenario-generation chooser of the current run.
func G() Gen { return Gen{W} }

// IntN draws in [0,n); 0 is the simplest value.
func (g Gen) IntN(n int) int {
	w := g.w
	return w.gen.next(n, func() int { return w.rng.IntN(n) })
}

// Range draws in [lo,hi].
func (g Gen) Range(lo, hi int) int {
	if hi <= lo {
		return lo
	}
	return lo + g.IntN(hi-lo+1)
}

// Bool draws a coin with probability p of true.
func (g Gen) Bool(p float64) bool {
	w := g.w
	return w.gen.next(2, func() int {
		if w.rng.Float64() < p {
			return 1
		}
		return 0
	}) == 1
}

// Pick draws an index weighted by ws; index 0 should be the simplest.
func (g Gen) Pick(ws ...int) int {
	w := g.w
	tot := 0
	for _, x := range ws {
		tot += x
	}
	return w.gen.next(len(ws), func() int {
		r := w.rng.IntN(tot)
		for i, x := range ws {
			if r < x {
				return i
			}
			r -= x
		}
		return 0
	})
}

// Perm returns a permutation of 0..n-1 drawn from the scheduling tape
// (identity is the benign value).
func Perm(n int) []int {
	p := make([]int, n)
	for i := range p {
		p[i] = i
	}
	for i := 0; i < n-1; i++ {
		j := i + IntN(n-i)
		p[i], p[j] = p[j], p[i]
	}
	return p
}
