package simrt

import (
	"fmt"
	"sort"
)

// strategy decides, in search mode, which candidate runs next. Its decisions
// are recorded on the scheduling tape as an index into the canonical
// candidate order (current task first, then creation order, "let time pass"
// last), so replay needs no strategy at all.
type strategy interface {
	name() string
	newPrio(t *Task) int64
	pick(cands []*Task, timeOpt bool) int
}

// StrategyNames lists the strategies a run can be pinned to.
var StrategyNames = []string{"rw", "sticky50", "sticky90", "sticky99", "pct1", "pct2", "pct3", "pct4", "pct5", "starve"}

func newStrategy(w *World, name string) strategy {
	if name == "" {
		// swarm: each run draws its own strategy
		name = StrategyNames[w.rng.IntN(len(StrategyNames))]
	}
	ptime := []float64{0, 0, 0.02, 0.2}[w.rng.IntN(4)]
	base := stratBase{w: w, ptime: ptime, nm: name}
	switch {
	case name == "rw":
		return &randomWalk{base}
	case len(name) > 6 && name[:6] == "sticky":
		p := 0.9
		switch name {
		case "sticky50":
			p = 0.5
		case "sticky99":
			p = 0.99
		}
		return &sticky{base, p}
	case len(name) == 4 && name[:3] == "pct":
		d := int(name[3] - '0')
		k := []int{100, 400, 1500, 6000}[w.rng.IntN(4)]
		s := &pct{stratBase: base, low: -1}
		for i := 0; i < d-1; i++ {
			s.cps = append(s.cps, uint64(w.rng.IntN(k)))
		}
		sort.Slice(s.cps, func(i, j int) bool { return s.cps[i] < s.cps[j] })
		return s
	case name == "starve":
		return &starve{stratBase: base}
	}
	panic("simrt: unknown strategy " + name)
}

type stratBase struct {
	w     *World
	ptime float64
	nm    string
}

func (b *stratBase) name() string          { return fmt.Sprintf("%s/pt=%v", b.nm, b.ptime) }
func (b *stratBase) newPrio(t *Task) int64 { return 0 }

// timeFirst decides whether to let time pass although tasks are runnable.
func (b *stratBase) timeFirst(timeOpt bool) bool {
	return timeOpt && b.ptime > 0 && b.w.rng.Float64() < b.ptime
}

type randomWalk struct{ stratBase }

func (s *randomWalk) pick(c []*Task, timeOpt bool) int {
	if s.timeFirst(timeOpt) {
		return len(c)
	}
	return s.w.rng.IntN(len(c))
}

type sticky struct {
	stratBase
	p float64
}

func (s *sticky) pick(c []*Task, timeOpt bool) int {
	if s.timeFirst(timeOpt) {
		return len(c)
	}
	if c[0] == s.w.cur && s.w.rng.Float64() < s.p {
		return 0
	}
	return s.w.rng.IntN(len(c))
}

// pct is probabilistic concurrency testing: random task priorities, the
// highest-priority candidate always runs, and at d-1 random steps the running
// task is demoted below everyone.
type pct struct {
	stratBase
	cps []uint64
	low int64
}

func (s *pct) newPrio(t *Task) int64 { return 1 + int64(s.w.rng.IntN(1<<30)) }

func (s *pct) pick(c []*Task, timeOpt bool) int {
	if s.timeFirst(timeOpt) {
		return len(c)
	}
	best := 0
	for i := 1; i < len(c); i++ {
		if c[i].prio > c[best].prio {
			best = i
		}
	}
	for len(s.cps) > 0 && s.w.steps >= s.cps[0] {
		s.cps = s.cps[1:]
		c[best].prio = s.low
		s.low--
		best = 0
		for i := 1; i < len(c); i++ {
			if c[i].prio > c[best].prio {
				best = i
			}
		}
	}
	return best
}

// starve holds one task back for a random stretch (a stalled worker, writer
// or requester), otherwise random walk with some stickiness.
type starve struct {
	stratBase
	victim *Task
	until  uint64
}

func (s *starve) pick(c []*Task, timeOpt bool) int {
	if s.timeFirst(timeOpt) {
		return len(c)
	}
	w := s.w
	if w.steps >= s.until {
		s.victim = nil
		if len(w.tasks) > 0 && w.rng.IntN(3) > 0 {
			s.victim = w.tasks[w.rng.IntN(len(w.tasks))]
		}
		s.until = w.steps + uint64(5+w.rng.IntN(400))
	}
	if len(c) > 1 && s.victim != nil {
		n := 0
		for _, t := range c {
			if t != s.victim {
				n++
			}
		}
		if n > 0 {
			k := w.rng.IntN(n)
			if c[0] == w.cur && c[0] != s.victim && w.rng.IntN(2) == 0 {
				return 0
			}
			for i, t := range c {
				if t == s.victim {
					continue
				}
				if k == 0 {
					return i
				}
				k--
			}
		}
	}
	return w.rng.IntN(len(c))
}
