package simrt

import (
	"fmt"
	"reflect"
	"sort"
)

// MapKeys returns the keys of m in a canonical order (by content, never by
// address) permuted by the scheduler: map iteration order becomes replayable
// and an explored dimension. The rewriter routes every `range` over a map
// through it.
func MapKeys[M ~map[K]V, K comparable, V any](m M) []K {
	keys := make([]K, 0, len(m))
	for k := range m {
		keys = append(keys, k)
	}
	if len(keys) <= 1 {
		return keys
	}
	strs := make([]string, len(keys))
	for i, k := range keys {
		strs[i] = keyString(any(k))
	}
	idx := make([]int, len(keys))
	for i := range idx {
		idx[i] = i
	}
	sort.SliceStable(idx, func(a, b int) bool { return strs[idx[a]] < strs[idx[b]] })
	out := make([]K, len(keys))
	for i, j := range idx {
		out[i] = keys[j]
	}
	if W != nil && !W.cur.killed {
		p := Perm(len(out))
		perm := make([]K, len(out))
		for i, j := range p {
			perm[i] = out[j]
		}
		out = perm
	}
	return out
}

func keyString(k any) string {
	switch v := k.(type) {
	case string:
		return v
	case int:
		return fmt.Sprintf("%020d", v)
	case int64:
		return fmt.Sprintf("%020d", v)
	case uint64:
		return fmt.Sprintf("%020d", v)
	case int32:
		return fmt.Sprintf("%020d", v)
	case fmt.Stringer:
		rv := reflect.ValueOf(k)
		if rv.Kind() == reflect.Pointer && rv.IsNil() {
			return "<nil>"
		}
		return v.String()
	}
	rv := reflect.ValueOf(k)
	if rv.Kind() == reflect.Pointer {
		if rv.IsNil() {
			return "<nil>"
		}
		return fmt.Sprintf("%+v", rv.Elem().Interface())
	}
	return fmt.Sprintf("%+v", k)
}
